#!/bin/bash
# build.sh <outdir> : rewrite /repo's working tree and build the check binary into <outdir>/check.bin
set -e
export GOFLAGS=-mod=mod GOPROXY=off GOSUMDB=off GOTOOLCHAIN=local
ROOT="$(cd "$(dirname "$(readlink -f "$0")")" && pwd)"
OUT="$1"; shift
REPO="${VERIF_REPO:-/repo}"
mkdir -p "$OUT"
# never let the go command touch /repo/go.mod or go.sum: work against private copies
cp "$REPO/go.mod" "$OUT/go.mod"; cp "$REPO/go.sum" "$OUT/go.sum"
"$ROOT/tools/bin/rewrite" -repo "$REPO" -out "$OUT" -modfile "$OUT/go.mod" -vrt "$ROOT/vrt" -harness "$ROOT/harness" >/dev/null
cd "$REPO"
go build -modfile="$OUT/go.mod" -tags verif -overlay "$OUT/overlay.json" -o "$OUT/check.bin" ./internal/verif/cmd/check
