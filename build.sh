#!/bin/bash
# build.sh <outdir> : rewrite /repo's working tree and build the check binary into <outdir>/check.bin
set -e
export GOFLAGS=-mod=mod GOPROXY=off GOSUMDB=off GOTOOLCHAIN=local
OUT="$1"; shift
REPO="${VERIF_REPO:-/repo}"
mkdir -p "$OUT"
/verif/tools/bin/rewrite -repo "$REPO" -out "$OUT" -vrt /verif/vrt -harness /verif/harness >/dev/null
cd "$REPO"
go build -tags verif -overlay "$OUT/overlay.json" -o "$OUT/check.bin" ./internal/verif/cmd/check
