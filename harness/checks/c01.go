//go:build verif

package checks

import (
	"bytes"
	"encoding/json"
	"fmt"
	"strconv"
	"strings"
	"time"

	"github.com/tokenized/pkg/bitcoin"
	"github.com/tokenized/pkg/wire"
	"github.com/tokenized/spynode/internal/verif/core"
)

// Node-level history model shared by C01 (convergence), C02 (linkage), C10, C19: the real
// Node.Run against peer model P; events are environment moves applied at quiescent points.

type histParams struct {
	Prop   string   `json:"prop"`
	Cfg    WorldCfg `json:"cfg"`
	Boot   string   `json:"boot"` // "cold" | "synced"
	Events []string `json:"events"`
	Drain  bool     `json:"drain"`
	Tx     bool     `json:"tx"`     // transaction universe + subscription
	Live   bool     `json:"live"`   // C07 liveness phase at the end
	CountPoints  bool `json:"count_points,omitempty"` // sched mode baseline: only count scheduling points
	Adversarial  bool `json:"adversarial"`   // C02: named tree + raw header/block events
	StartUnknown bool `json:"start_unknown"` // start hash is a block the node has not seen at boot (pre-start mode)
	ExtraDepth int  `json:"extra_depth"`
	StaleDup bool `json:"stale_dup,omitempty"` // duph may also repeat the announcement of a branch the peer has abandoned since
	ContractsOnly bool `json:"contracts_only,omitempty"` // contract subscription on, no push data subscribed
	BlockFetch bool `json:"block_fetch,omitempty"` // C13: apply the block download oracle after every event
	FailAt int      `json:"fail_at,omitempty"` // the FailAt-th storage operation returns an error
	Prefix []string `json:"prefix,omitempty"` // events applied after the boot, before the explored history (a non-initial start state)
	Plan   []planStep     `json:"plan,omitempty"`    // sched mode: deviations inserted at scheduling points
	SelAlt map[string]int `json:"sel_alt,omitempty"` // sched mode: alternatives at multi-ready selects // explore this scenario deeper than the check's base depth
}

// bootSync drives a freshly started node until it has converged to the peer's chain and told
// the handlers that it is in sync (canonical well-behaved peer).
func (w *World) bootSync(rounds int) bool {
	for i := 0; i < rounds; i++ {
		w.Tick(100 * time.Millisecond)
		w.answerRound()
		w.pingNode()
		w.Tick(250 * time.Millisecond)
		if ok, _ := w.Converged(); ok && w.Node.IsReady(core.Ctx()) && w.P != nil && len(w.P.pending) == 0 && w.P.sendHeaders {
			return true
		}
		if w.livelock || len(w.S.Panics()) > 0 {
			return false
		}
	}
	return false
}

func (w *World) pingNode() {
	if w.P != nil {
		w.send(w.P, wire.NewMsgPing(7))
		w.settle()
	}
}

// applyEvent performs one environment event; returns false if it is not applicable.
func (w *World) applyEvent(ev string) bool {
	w.hist = append(w.hist, ev)
	if traceOn {
		w.tracef("EVENT %s", ev)
	}
	p := strings.Split(ev, ":")
	switch p[0] {
	case "ans":
		k := 0
		if len(p) > 1 {
			k, _ = strconv.Atoi(p[1])
		}
		if !w.answerTrusted(k) {
			return false
		}
		w.settle()
	case "ansh", "ansb": // the oldest outstanding getheaders / every outstanding block request
		if w.P == nil {
			return false
		}
		done := false
		for i := 0; i < len(w.P.pending); {
			k := w.P.pending[i].kind
			if (p[0] == "ansh" && k == "getheaders") || (p[0] == "ansb" && k == "block") {
				w.answerTrusted(i)
				done = true
				if p[0] == "ansh" {
					break
				}
				continue
			}
			i++
		}
		if !done {
			return false
		}
		w.settle()
	case "ext":
		k, _ := strconv.Atoi(p[1])
		w.Extend(k, nil)
		w.Announce(w.P)
		w.settle()
	case "reorg", "reorg+": // reorg+: and the node follows it to the end
		d, _ := strconv.Atoi(p[1])
		n, _ := strconv.Atoi(p[2])
		if !w.Reorg(d, n) {
			return false
		}
		w.everReorged, w.lastUnsync = true, w.S.Now
		w.Announce(w.P)
		w.settle()
		if p[0] == "reorg+" {
			w.settleMacro()
			w.lastUnsync = w.S.Now
		}
	case "back":
		k, _ := strconv.Atoi(p[1])
		if !w.Back(k) {
			return false
		}
		w.everReorged, w.lastUnsync = true, w.S.Now
		w.Announce(w.P)
		w.settle()
	case "ping":
		if w.P == nil {
			return false
		}
		w.pingNode()
	case "tick":
		ms, _ := strconv.Atoi(p[1])
		w.Tick(time.Duration(ms) * time.Millisecond)
	case "dup":
		if w.P == nil || len(w.P.sentLog) == 0 {
			return false
		}
		w.sendRaw(w.P, w.P.sentLog[len(w.P.sentLog)-1])
		w.settle()
	case "duph": // duph:<k>: the k-th last headers message of this connection is delivered again (late duplicate)
		k, _ := strconv.Atoi(p[1])
		m := w.nthLastHeaders(k)
		if m == nil {
			return false
		}
		w.sendRaw(w.P, m)
		w.settle()
	case "drop":
		if w.P == nil || w.P.conn == nil {
			return false
		}
		w.P.conn.Close()
		w.lastUnsync = w.S.Now
		w.restarts = append(w.restarts, w.S.Now)
		w.settle()
	case "restart":
		w.restarts = append(w.restarts, w.S.Now)
		if len(p) > 1 && p[1] == "late" {
			// the application subscribes its filter only after the node is running again ("sub" event)
			w.lateSub, w.cfg.Subscribe = w.cfg.Subscribe, nil
		}
		w.CleanRestart()
		w.lastUnsync = w.S.Now
		if len(p) == 1 || p[1] != "raw" {
			w.settleMacro() // "restart" brings the node back in sync; "restart:raw" does not
			if w.cfg.Untrusted > 0 && len(w.viol) == 0 && !w.manualUntrusted {
				w.bootUntrusted() // and its untrusted connections are dialled and verified again
			}
			w.lastUnsync = w.S.Now
		}
	case "sub": // the application (re)subscribes its push data filter
		if w.lateSub == nil {
			return false
		}
		w.cfg.Subscribe, w.lateSub = w.lateSub, nil
		w.Node.SubscribePushDatas(core.Ctx(), w.cfg.Subscribe)
		w.settle()
	case "offline": // offline:<txs>: clean stop, the peer mines a block with these txs while the node is down, start, catch up
		w.restarts = append(w.restarts, w.S.Now)
		w.StopNode()
		var names []string
		if len(p) > 1 && p[1] != "" {
			names = strings.Split(p[1], ",")
		}
		w.Extend(1, names)
		w.StartNode()
		w.settle()
		w.settleMacro()
		if !w.Node.IsReady(core.Ctx()) {
			// the node may only get back in sync after its 60 s headers request time-out (known quirk, DESIGN §7)
			w.Tick(61 * time.Second)
			w.settleMacro()
		}
		w.lastUnsync = w.S.Now
	case "crash":
		// the process dies: every thread of the node is abandoned, a new node starts on the store
		w.S.KillAll(true)
		w.P = nil
		for _, a := range untrustedAddrs {
			if pc := w.U[a]; pc != nil {
				w.U[a] = &peerConn{addr: a, announced: map[string]int64{}}
			}
		}
		w.restarts = append(w.restarts, w.S.Now)
		w.crashes = append(w.crashes, w.S.Now)
		w.StartNode()
		w.settle()
		w.lastUnsync = w.S.Now
		if len(p) == 1 {
			w.settleMacro()
			w.lastUnsync = w.S.Now
		}
	case "settle":
		w.settleMacro()
	case "multi": // multi:<ev>|<ev>|...: several deliveries before anything runs (concurrent arrivals)
		w.batching = true
		for _, sub := range strings.Split(strings.TrimPrefix(ev, "multi:"), "|") {
			w.hist = w.hist[:len(w.hist)]
			w.applyEvent(sub)
			w.hist = w.hist[:len(w.hist)-1]
		}
		w.batching = false
		w.settle()
	default:
		handled, ok := w.applyTxEvent(p)
		if !handled {
			handled, ok = w.applyAdvEvent(p)
		}
		if !handled {
			handled, ok = w.applyUntrustedRaw(p)
		}
		if !handled {
			panic("unknown event " + ev)
		}
		return ok
	}
	return true
}

// CleanRestart stops the node through its API and starts a new node on the same storage.
func (w *World) CleanRestart() {
	w.StopNode()
	w.StartNode()
	w.settle()
}

// StopNode calls Node.Stop from an application thread and waits (virtual time) for Run to return.
func (w *World) StopNode() {
	node := w.Node
	done := false
	ctx := core.Ctx()
	t := vrtGoEnv("App.Stop", func() {
		node.Stop(ctx)
		done = true
	})
	_ = t
	start := w.S.Now
	for i := 0; i < 400 && !(done && w.runDone); i++ {
		w.Tick(100 * time.Millisecond)
		if w.livelock || len(w.S.Panics()) > 0 {
			break
		}
	}
	if !(done && w.runDone) {
		w.fail("C19", "stop-terminates", stateOfRun(w), fmt.Sprintf("Stop/Run did not return within %d ms of virtual time (stop returned %v, run returned %v)", (w.S.Now-start)/1e6, done, w.runDone))
	}
	w.stopElapsed = w.S.Now - start
	// Whatever is still running belongs to the stopped node: unwind it.
	w.S.KillAll(true)
	w.P = nil
	for _, a := range untrustedAddrs {
		if pc := w.U[a]; pc != nil {
			w.U[a] = &peerConn{addr: a, announced: map[string]int64{}} // its connection went with the process; it can be dialled again
		}
	}
}

func stateOfRun(w *World) string {
	if w.Node.IsReady(core.Ctx()) {
		return "in sync"
	}
	return "syncing"
}

// drainConverge lets the peer answer everything, ping and advance the clock until the node has
// converged; if that does not happen it lets the request time-outs fire. Returns rounds used.
func (w *World) drainConverge() (bool, string) {
	why := ""
	phase := func(rounds int) bool {
		stable := 0
		for i := 0; i < rounds; i++ {
			w.answerRound()
			w.Announce(w.P)
			w.settle()
			w.pingNode()
			w.Tick(300 * time.Millisecond)
			if w.livelock || len(w.S.Panics()) > 0 {
				return false
			}
			ok, reason := w.Converged()
			why = reason
			if ok && (w.P == nil || len(w.P.pending) == 0) {
				stable++
				if stable >= 2 {
					return true
				}
			} else {
				stable = 0
			}
		}
		return false
	}
	if phase(25) {
		return true, ""
	}
	// allow the node's own request time-outs to fire (headers 60 s, blocks 600 s) and retry
	w.drainTimeouts = true
	for _, d := range []time.Duration{61 * time.Second, 10 * time.Second, 601 * time.Second, 10 * time.Second} {
		w.Tick(d)
		if phase(25) {
			return true, ""
		}
	}
	return false, why
}

// inSyncClause: at the moment HandleInSync is delivered the node must hold every block the peer
// has announced in messages the node has already consumed (on the peer's best chain, at or above
// the start height).
func (w *World) inSyncClause() {
	if w.P == nil {
		return
	}
	was := w.Store.Paused
	w.Store.Paused = true
	defer func() { w.Store.Paused = was }()
	ctx := core.Ctx()
	consumed := w.P.consumed()
	start := w.startHeightOnBest()
	for h := start; h < len(w.Best); h++ {
		name := w.Best[h]
		at, ok := w.P.announced[name]
		if !ok || at > consumed {
			continue
		}
		got, err := w.Node.Hash(ctx, h)
		if err != nil || got == nil || !got.Equal(&w.Tree.blocks[name].hash) {
			w.fail("C01", "in-sync-holds-announced", fmt.Sprintf("missing announced block (behind by %d)", len(w.Best)-1-w.Node.LastHeight(ctx)),
				fmt.Sprintf("HandleInSync delivered while announced block at height %d (peer tip %d) is not in the node's chain (node tip %d)", h, len(w.Best)-1, w.Node.LastHeight(ctx)))
			return
		}
	}
	// The notification must rest on what the peer said in this session: a headers message that
	// stops short of the sender's tip (a full batch) says "there is more", so before the node may
	// call itself in sync it must have consumed, on this connection, at least one headers message
	// that reached the peer's tip of that moment (a short or empty answer, or an announcement).
	// (Only at quiescent deliveries: under a scheduling deviation a message can be consumed and
	// not yet handled.)
	if w.plan != nil {
		return
	}
	for i := range w.P.hdrMsgs {
		if m := &w.P.hdrMsgs[i]; m.end <= consumed && m.reachedTip {
			return
		}
	}
	w.fail("C01", "in-sync-confirmed", "in-sync reported although every headers message consumed in this session stopped short of the peer's tip",
		fmt.Sprintf("HandleInSync delivered at node tip %d on connection %d: of the %d headers messages the peer sent on it none that the node has consumed reached the peer's tip (peer tip now %d)", w.Node.LastHeight(ctx), w.P.gen, len(w.P.hdrMsgs), len(w.Best)-1))
}

// chainInvariants (C02): linkage, inverse maps, tip-only growth; called at quiescent points.
func (w *World) chainInvariants(prop string) {
	was := w.Store.Paused
	w.Store.Paused = true // the oracle's own reads are not part of the fault schedule
	defer func() { w.Store.Paused = was }()
	ctx := core.Ctx()
	tip := w.Node.LastHeight(ctx)
	lo := tip - 12
	if lo < 1 {
		lo = 1
	}
	var prevHash = func(h int) interface{} { x, _ := w.Node.Hash(ctx, h); return x }
	_ = prevHash
	for h := lo; h <= tip; h++ {
		hh, err := w.Node.Hash(ctx, h)
		ph, err2 := w.Node.Hash(ctx, h-1)
		if err != nil || err2 != nil || hh == nil || ph == nil {
			w.fail(prop, "hash-by-height-available", "Hash(h) fails within the chain", fmt.Sprintf("Hash(%d) or Hash(%d) failed with tip %d: %v %v", h, h-1, tip, err, err2))
			return
		}
		name, known := w.Tree.byHash[*hh]
		if !known {
			w.fail(prop, "stored-block-from-peer", "unknown block stored", fmt.Sprintf("height %d holds a block the peer never produced", h))
			return
		}
		b := w.Tree.blocks[name]
		if !b.msg.Header.PrevBlock.Equal(ph) {
			w.fail(prop, "parent-link", "stored block's parent is not the block below", fmt.Sprintf("block at height %d (%s) has parent %s but height %d holds another block", h, name, b.parent, h-1))
			return
		}
	}
}

type histRun struct {
	w       *World
	key     string
	enabled []string
	outcome string
}

var histBoot = map[string]bool{"cold": true, "synced": true}

func vrtGoEnv(label string, f func()) interface{} { return goEnv(label, f) }

// runHist executes hist from the initial state of the scenario.
func runHist(p histParams, hist []string, withDrain bool) *histRun {
	w := NewWorld(p.Cfg)
	w.staleDup = p.StaleDup
	w.Store.FailAt = p.FailAt
	r := &histRun{w: w}
	w.onCallback = func(h int, e cbEvent) {
		if e.Kind == "insync" && h == 0 {
			w.inSyncClause()
		}
	}
	if p.Tx {
		w.SetupTxUniverse()
		w.cfg.Subscribe = [][]byte{subKey[:]}
		if p.ContractsOnly {
			w.cfg.Subscribe = nil // the client subscribes to contract-wide actions only
		}
	}
	if p.Cfg.Untrusted > 0 {
		w.SetupUntrusted(p.Cfg.Untrusted)
	}
	if len(p.Plan) > 0 || p.SelAlt != nil || p.CountPoints {
		w.installPlan(p.Plan)
		for k, v := range p.SelAlt {
			var i int
			fmt.Sscan(k, &i)
			if w.plan.SelAlt == nil {
				w.plan.SelAlt = map[int]int{}
			}
			w.plan.SelAlt[i] = v
		}
		if p.Boot == "synced" {
			w.plan.suspended = true // deviations apply to the explored history, not to the common boot
		}
	}
	w.StartNode()
	w.settle()
	if p.Boot == "synced" {
		if !w.bootSync(60) {
			ok, why := w.Converged()
			w.fail(p.Prop, "boot-sync", "initial sync with a well-behaved peer", fmt.Sprintf("node did not reach in-sync on a fresh store (converged=%v %s)", ok, why))
		}
		if p.Cfg.Untrusted > 0 && len(w.viol) == 0 && !w.bootUntrusted() {
			w.fail(p.Prop, "boot-untrusted", "untrusted peers on the same chain get verified", fmt.Sprintf("only %d of %d untrusted peers became ready", w.untrustedReady(), p.Cfg.Untrusted))
		}
		w.lastUnsync = w.S.Now
	}
	if w.plan != nil {
		w.plan.suspended = false
	}
	if p.Adversarial {
		w.buildAdversarialTree()
		w.shadowCheck()
	}
	for i, ev := range append(append([]string(nil), p.Prefix...), hist...) {
		if len(w.viol) > 0 || w.livelock || len(w.S.Panics()) > 0 {
			break
		}
		if i < len(p.Prefix) && !w.eventEnabled(ev) {
			w.fail(p.Prop, "prefix", "scenario prefix not applicable", fmt.Sprintf("prefix event %d (%s) is not enabled", i, ev))
			break
		}
		w.applyEvent(ev)
		w.chainInvariants("C02")
		if p.Adversarial {
			w.shadowCheck()
			w.fullChainInvariants()
		}
		if p.Tx {
			w.oracleFlags(false)
		}
		if p.BlockFetch && !p.Adversarial {
			w.oracleBlockFetch()
		}
		if p.BlockFetch {
			w.oracleWindowRequested()
		}
	}
	w.PanicViolations(p.Prop)
	if len(w.viol) == 0 {
		extra := ""
		if p.Tx {
			extra = w.txMonitorKey()
		}
		r.key = w.Key(extra)
		for _, ev := range p.Events {
			if w.eventEnabled(ev) {
				r.enabled = append(r.enabled, ev)
			}
		}
		if withDrain {
			ok, why := w.drainConverge()
			w.PanicViolations(p.Prop)
			if !ok && len(w.viol) == 0 {
				ctx := core.Ctx()
				cls := fmt.Sprintf("stalled (%s; node in sync flag %v)", classifyStall(w), w.Node.IsReady(ctx))
				if w.devSite != "" {
					cls += " after " + w.devSite
				}
				w.fail("C01", "converges-after-drain", cls,
					fmt.Sprintf("after the history and a fair drain (answers, pings, clock incl. 61 s and 601 s time-outs) the node has not converged: %s; node tip %d, peer tip %d", why, w.Node.LastHeight(ctx), len(w.Best)-1))
			}
			w.chainInvariants("C02")
			if ok {
				w.processedAnnounced(p.Prop)
			}
			if p.BlockFetch {
				w.oracleBlockFetch()
			}
		}
		if p.Tx {
			w.txFinal(p.Live)
		}
	}
	ctx := core.Ctx()
	r.outcome = fmt.Sprintf("tip=%d best=%d ready=%v conns=%d", w.Node.LastHeight(ctx), len(w.Best)-1, w.Node.IsReady(ctx), len(w.PConns))
	return r
}

func classifyStall(w *World) string {
	tip := w.Node.LastHeight(core.Ctx())
	switch {
	case tip < len(w.Best)-1:
		return "short of the peer's tip"
	case tip > len(w.Best)-1:
		return "beyond the peer's tip"
	}
	return "same height, other branch"
}

func (w *World) eventEnabled(ev string) bool {
	p := strings.Split(ev, ":")
	switch p[0] {
	case "ans":
		k := 0
		if len(p) > 1 {
			k, _ = strconv.Atoi(p[1])
		}
		return w.P != nil && len(w.P.pending) > k
	case "ansh", "ansb":
		if w.P == nil {
			return false
		}
		for _, r := range w.P.pending {
			if (p[0] == "ansh" && r.kind == "getheaders") || (p[0] == "ansb" && r.kind == "block") {
				return true
			}
		}
		return false
	case "reorg", "reorg+":
		d, _ := strconv.Atoi(p[1])
		return d < len(w.Best)-1
	case "back":
		return len(w.Abandoned) > 0
	case "ping", "drop":
		return w.P != nil && w.P.conn != nil && !w.P.conn.IsClosed()
	case "dup":
		return w.P != nil && len(w.P.sentLog) > 0
	case "duph":
		k, _ := strconv.Atoi(p[1])
		return w.nthLastHeaders(k) != nil
	case "uh", "uinv", "utx", "uxtx", "ublock", "uxblock", "uaddr", "ugarbage":
		if p[0] == "uh" && len(p) > 1 && p[1] == "orphan" && len(w.Abandoned) < 4 {
			return false
		}
		if p[0] == "uh" && len(p) > 1 && p[1] == "lowfork" && len(w.Best) < 41 {
			return false
		}
		pc := w.U[untrustedAddrs[0]]
		return pc != nil && pc.conn != nil && !pc.conn.IsClosed() && !pc.conn.Peer.IsClosed()
	case "h", "b":
		return w.P != nil && w.P.conn != nil && !w.P.conn.IsClosed() && !w.P.conn.Peer.IsClosed()
	case "sub":
		return w.lateSub != nil
	case "restart":
		return !(len(p) > 1 && p[1] == "late" && (w.lateSub != nil || len(w.cfg.Subscribe) == 0))
	case "burst":
		pc := w.connOf(p[1])
		return !w.bursted[p[1]] && pc != nil && pc.conn != nil && !pc.conn.IsClosed() && !pc.conn.Peer.IsClosed()
	case "inv", "tx", "uping":
		if p[0] != "uping" && p[1] == "T" && len(p) > 2 {
			// peer assumption: a Bitcoin node does not relay a tx that double spends a tx confirmed on its best chain
			for _, bn := range w.Best {
				for _, t := range w.Tree.blocks[bn].txs {
					if w.Txs[p[2]] != nil && w.Txs[t] != nil && w.conflicts(t, p[2]) {
						return false
					}
				}
			}
		}
		pc := w.connOf(p[1])
		return pc != nil && pc.conn != nil && !pc.conn.IsClosed() && !pc.conn.Peer.IsClosed()
	case "uans":
		pc := w.connOf(p[1])
		return pc != nil && len(pc.pending) > 0
	}
	return true
}

func histExpand(params json.RawMessage, hist []string) []core.Succ {
	var p histParams
	json.Unmarshal(params, &p)
	base := runHist(p, hist, false)
	base.w.Close()
	if len(base.w.viol) > 0 {
		return nil
	}
	var out []core.Succ
	for _, ev := range base.enabled {
		h2 := append(append([]string(nil), hist...), ev)
		r := runHist(p, h2, p.Drain)
		s := core.Succ{Event: ev, Key: r.key, Outcome: r.outcome}
		if len(r.w.viol) > 0 {
			s.Violations = r.w.viol
			s.Terminal = true
		}
		r.w.Close()
		out = append(out, s)
	}
	return out
}

func init() {
	core.RegisterExpander("hist", histExpand)
}

// answerRound answers the requests that are outstanding now (not the ones the answers provoke:
// while it waits for blocks the node re-polls getheaders after every answer, which with a
// zero-latency peer would never end).
func (w *World) answerRound() {
	if w.P == nil {
		return
	}
	n := len(w.P.pending)
	for i := 0; i < n && w.P != nil && len(w.P.pending) > 0; i++ {
		w.answerTrusted(0)
		w.settle()
	}
}

// txFinal: let queued work finish (short ticks with peer activity), then evaluate the tx oracles.
func (w *World) txFinal(live bool) {
	for i := 0; i < 3; i++ {
		w.pingAll()
		w.Tick(150 * time.Millisecond)
	}
	w.PanicViolations("C03")
	if len(w.viol) > 0 {
		return
	}
	w.oracleDelivery()
	w.confirmationsNotified()
	w.oracleFlags(true)
	w.oracleRequests()
	if live {
		w.safeLiveness()
	}
	w.storedCopies()
}

func (w *World) pingAll() {
	w.pingNode()
	for _, a := range untrustedAddrs {
		if pc := w.U[a]; pc != nil && pc.conn != nil && !pc.conn.IsClosed() && !pc.conn.Peer.IsClosed() {
			w.send(pc, wire.NewMsgPing(5))
			w.settle()
		}
	}
}

// safeLiveness (C07): when the conditions hold and the node stays in sync, safe is reported
// within delay + two poll periods.
func (w *World) safeLiveness() {
	delay := time.Duration(w.cfg.SafeDelayMS) * time.Millisecond
	begin := w.S.Now
	for w.S.Now-begin < int64(delay+500*time.Millisecond) {
		w.pingAll()
		w.Tick(200 * time.Millisecond)
	}
	if !w.stayedReady(begin) || !w.Node.IsReady(core.Ctx()) {
		return
	}
	tr := w.tracks(0)
	for _, n := range w.txOrder {
		t := tr[n]
		if t == nil || t.newCount == 0 || !w.relevant(n) || w.minedIn(n) != nil {
			continue
		}
		restarted := t.gens[0] != w.nodeGen
		if restarted && w.crashAfter(t.times[0]) {
			continue // an unclean crash may lose the tracking; a clean restart must keep it (C11)
		}
		vouched, local := false, false
		for _, a := range w.arrivals[n] {
			// a vouching the running node instance saw, or one that reached an earlier instance while the tx
			// was already tracked (that one is persisted with the tx)
			if a.src == "T" && a.ready && (a.nodeGen == w.nodeGen || a.at >= t.times[0]) {
				vouched = true
			}
			if a.src == "local" {
				local = true
			}
		}
		if !vouched || local || w.anyConflictArrived(n) {
			continue
		}
		safe, unsafe := false, false
		for si, s := range t.states {
			if s.Safe && !safe && s.MerkleProof == nil {
				// first-seen time and vouching are kept with the tx: the report is due once the delay has passed
				// since the later of the two, or - if the node was not in sync then - shortly after it is again
				var due int64 = t.times[0]
				for _, a := range w.arrivals[n] {
					if a.src == "T" && a.ready && a.at > due && a.at <= t.times[si] {
						due = a.at
						break
					}
				}
				due += int64(delay)
				if w.lastUnsync > due {
					due = w.lastUnsync
				}
				if late := t.times[si] - due; late > int64(1200*time.Millisecond)+w.slack && restarted {
					w.fail("C07", "safe-eventually", "safe reported long after first seen + delay (delivered before a clean restart)", fmt.Sprintf("tx %s: first seen at %d ms, delay %d ms, node back in sync at %d ms, safe reported at %d ms", n, t.times[0]/1e6, delay/1e6, w.lastUnsync/1e6, t.times[si]/1e6))
				}
			}
			if s.Safe {
				safe = true
			}
			if s.UnSafe {
				unsafe = true
			}
		}
		if !safe && !unsafe {
			cls := "vouched conflict-free tx never reported safe"
			if restarted {
				cls += " (delivered before a clean restart)"
			}
			w.fail("C07", "safe-eventually", cls, fmt.Sprintf("tx %s was announced by the trusted peer, has no known conflict, the node stayed in sync for %d ms beyond the delay, but no safe report was sent", n, 500))
		}
	}
}

// storedCopies (C11): every delivered tx can be fetched back and equals what handlers got.
func (w *World) storedCopies() {
	ctx := core.Ctx()
	for n, t := range w.tracks(0) {
		if t.tx == nil || strings.HasPrefix(n, "?") {
			continue
		}
		got, err := w.Node.GetTx(ctx, *w.Txs[n].TxHash())
		if err != nil || got == nil {
			w.fail("C11", "stored-copy-fetchable", "delivered tx cannot be fetched back", fmt.Sprintf("GetTx(%s) failed: %v", n, err))
			continue
		}
		if *got.TxHash() != *t.tx.Tx.TxHash() {
			w.fail("C11", "stored-copy-equal", "stored tx differs from the delivered one", "tx "+n)
		}
	}
}

// settleMacro: the peer answers what is outstanding, announces, pings; short clock steps, until
// the node has converged and is in sync (at most 12 rounds).
func (w *World) settleMacro() {
	for i := 0; i < 12; i++ {
		w.answerRound()
		w.Announce(w.P)
		w.settle()
		w.pingAll()
		w.Tick(300 * time.Millisecond)
		if ok, _ := w.Converged(); ok && (w.P == nil || len(w.P.pending) == 0) && w.Node.IsReady(core.Ctx()) {
			break
		}
	}
}

func (w *World) crashAfter(t int64) bool {
	for _, c := range w.crashes {
		if c >= t {
			return true
		}
	}
	return false
}

// nthLastHeaders returns the raw bytes of the k-th last non-empty headers message sent on the trusted connection.
func (w *World) nthLastHeaders(k int) []byte {
	if w.P == nil || w.P.conn == nil || w.P.conn.IsClosed() {
		return nil
	}
	for i := len(w.P.sentLog) - 1; i >= 0; i-- {
		m := w.P.sentLog[i]
		if len(m) > 25 && strings.HasPrefix(string(m[4:16]), "headers") {
			if k == 0 {
				// any earlier announcement can show up a second time ("duplications"), also one for a branch the
				// peer has abandoned since; the peer still serves those blocks and answers polls with its best chain
				msg, _, err := wire.ReadMessage(bytes.NewReader(m), wire.ProtocolVersion, netMagic)
				hm, ok := msg.(*wire.MsgHeaders)
				if err != nil || !ok || len(hm.Headers) == 0 {
					return nil
				}
				for _, h := range hm.Headers {
					n, known := w.Tree.byHash[*h.BlockHash()]
					if !known || (!w.staleDup && !w.onBest(n)) {
						return nil // (scenarios whose oracle reads announcements as the peer's current view only repeat valid ones)
					}
				}
				return m
			}
			k--
		}
	}
	return nil
}

// processedAnnounced: the node follows the chain by *processing* blocks - every block of the
// peer's best chain from the start block up that the node holds was announced to the handlers
// (HandleHeaders) at some point, by this node instance or one before a clean restart.
func (w *World) processedAnnounced(prop string) {
	if len(w.crashes) > 0 {
		return
	}
	seen := map[bitcoin.Hash32]bool{}
	for _, e := range w.H[0].events {
		if e.Kind == "headers" {
			seen[e.Hash] = true
		}
	}
	for h := w.startHeightOnBest(); h < len(w.Best); h++ {
		b := w.Tree.blocks[w.Best[h]]
		if b == nil || !w.onNodeChain(b) {
			continue
		}
		if !seen[b.hash] {
			cls := "a block of the chain the node holds was never processed (no HandleHeaders for it)"
			if len(w.restarts) > 0 {
				cls += " after a reconnect / restart"
			}
			w.fail(prop, "blocks-processed", cls, fmt.Sprintf("block %s at height %d (start height %d) is on the node's chain but was never announced to the handlers", b.name, h, w.startHeightOnBest()))
			return
		}
	}
}
