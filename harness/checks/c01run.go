//go:build verif

package checks

import (
	"os"
	"encoding/json"
	"time"

	"github.com/tokenized/spynode/internal/verif/core"
)

func init() {
	All["C01"] = runC01
	Replayers["C01"] = func(wit json.RawMessage) []core.Violation { return histReplay(wit, "C01") }
}

var histScenarios = map[string]histParams{}

func histReplay(wit json.RawMessage, prop string) []core.Violation {
	var x struct {
		Hist     []string   `json:"hist"`
		Scenario histParams `json:"scenario"`
	}
	json.Unmarshal(wit, &x)
	r := runHist(x.Scenario, x.Hist, x.Scenario.Drain)
	defer r.w.Close()
	return r.w.viol
}

func c01Scenarios(thorough bool) []histParams {
	ev := []string{"ans", "ans:1", "ext:1", "ext:2", "ext:12", "reorg:1:2", "reorg:2:3", "back:1", "ping", "tick:250", "settle", "dup", "restart", "drop"}
	return []histParams{
		{Prop: "C01", Cfg: WorldCfg{InitialChain: 4, StartHeight: 2, SafeDelayMS: 2000, RemoveMissing: true}, Boot: "synced", Events: ev, Drain: true},
		{Prop: "C01", Cfg: WorldCfg{InitialChain: 16, StartHeight: 2, SafeDelayMS: 2000, RemoveMissing: true}, Boot: "cold", Events: ev, Drain: true},
	}
}

func runC01() int {
	rep := core.NewReport("C01", "model_checking")
	pool := core.NewPool()
	depth, maxStates, budget := 5, 60000, 150*time.Second
	if rep.Thorough() {
		depth, maxStates, budget = 7, 2000000, 25*time.Minute
	}
	deadline := time.Now().Add(budget)
	totalS, totalT := 0, 0
	for _, sc := range c01Scenarios(rep.Thorough()) {
		sub := core.NewReport("C01", "model_checking")
		init := runHist(sc, nil, false)
		key := init.key
		init.w.Close()
		for _, v := range init.w.viol {
			rep.AddViolation(v)
		}
		st := core.BFS(pool, sub, core.BFSOpts{Op: "hist", Params: sc, MaxDepth: depth, MaxStates: maxStates, Deadline: deadline, InitKey: key, Batch: 4})
		totalS += st.States
		totalT += st.Transitions
		for _, v := range sub.Violations {
			if m, ok := v.Witness.(map[string]interface{}); ok {
				m["scenario"] = sc
			}
			if v.Property == "C01" || v.Clause == "panic" {
				v.Property = "C01"
				rep.AddViolation(v)
			}
		}
		for o := range sub.Outcomes {
			rep.Outcome(o)
		}
		for _, s := range sub.Samples {
			rep.AddSample(s)
		}
		for _, e := range sub.HarnessErrs {
			rep.HarnessError("%s", e)
		}
		if !sub.Exhaustive {
			rep.Exhaustive = false
			rep.Coverage["cap_hit"] = sub.Coverage["cap_hit"]
		}
		rep.Coverage["depth_completed"] = st.Depth
	}
	rep.Coverage["states"] = totalS
	rep.Coverage["transitions"] = totalT
	rep.Coverage["traces_validated_against_impl"] = totalT
	rep.Coverage["rule"] = "explicit-state BFS over environment histories of the real Node.Run under the controlled scheduler against peer model P: events {answer oldest / second-oldest outstanding request, extend by 1/2, reorg depth 1/2, ping, tick 250 ms, duplicate last message, clean restart}; from every reached state a fair drain (answers, announcements, pings, clock steps incl. 61 s and 601 s) must converge to P's best chain; in-sync clause checked at every HandleInSync"
	rep.Assumptions = []string{"peer model P: answers getheaders from the first locator hash on its best chain, serves any block it has, announces best-chain changes with headers after sendheaders, pings", "hist mode merges states that differ only in the phase of polling loops (DESIGN §3.4)"}
	return rep.Finish()
}

// DebugHist prints a trace of one history (developer aid: check.bin debug-hist <scenario#> ev...).
func DebugHist(args []string) {
	sc := c01Scenarios(true)[0]
	if len(args) > 0 {
		var idx int
		fmtSscan(args[0], &idx)
		sc = c01Scenarios(true)[idx]
		args = args[1:]
	}
	traceOn = true
	r := runHist(sc, args, true)
	for _, l := range r.w.trace {
		println(l)
	}
	if os.Getenv("VERIF_DUMP") != "" {
		println(r.w.lastDump)
	}
	println("key", r.key, "outcome", r.outcome)
	for _, v := range r.w.viol {
		println("VIOL", v.Property, v.Clause, "|", v.Class, "|", v.Detail)
	}
	r.w.Close()
}
