//go:build verif

package checks

import (
	"strings"
	"fmt"
	"os"
	"encoding/json"
	"time"

	"github.com/tokenized/spynode/internal/verif/core"
)

func init() {
	All["C01"] = runC01
	Replayers["C01"] = func(wit json.RawMessage) []core.Violation { return histReplay(wit, "C01") }
}

var histScenarios = map[string]histParams{}

func histReplay(wit json.RawMessage, prop string) []core.Violation {
	var x struct {
		Hist     []string   `json:"hist"`
		Scenario histParams `json:"scenario"`
	}
	json.Unmarshal(wit, &x)
	if os.Getenv("VERIF_TRACE") != "" {
		traceOn = true
	}
	r := runHist(x.Scenario, x.Hist, x.Scenario.Drain)
	defer r.w.Close()
	if traceOn {
		for _, l := range r.w.trace {
			println(l)
		}
	}
	return r.w.viol
}

func c01Scenarios(thorough bool) []histParams {
	ev := []string{"ans", "ans:1", "ext:1", "ext:2", "ext:12", "reorg:1:2", "reorg:2:3", "back:1", "ping", "tick:250", "settle", "dup", "duph:1", "restart", "drop"}
	return []histParams{
		{Prop: "C01", Cfg: WorldCfg{InitialChain: 4, StartHeight: 2, SafeDelayMS: 2000, RemoveMissing: true}, Boot: "synced", Events: ev, Drain: true, StaleDup: true},
		{Prop: "C01", Cfg: WorldCfg{InitialChain: 16, StartHeight: 2, SafeDelayMS: 2000, RemoveMissing: true}, Boot: "cold", Events: ev, Drain: true, StaleDup: true},
		// catch-up in header batches (the peer's limit scaled from 2000 to 4), out-of-order answers, connection drops
		{Prop: "C01", Cfg: WorldCfg{InitialChain: 6, StartHeight: 2, SafeDelayMS: 2000, RemoveMissing: true, HeaderBatch: 4}, Boot: "cold",
			Events: []string{"ansh", "ansb", "ans:1", "drop", "ext:5", "tick:250", "settle"}, Drain: true, ExtraDepth: 2},
		// the same, started from a reconnect in the pending-sync phase (headers confirmed, blocks outstanding, connection lost)
		{Prop: "C01", Cfg: WorldCfg{InitialChain: 5, StartHeight: 2, SafeDelayMS: 2000, RemoveMissing: true, HeaderBatch: 4}, Boot: "cold",
			Prefix: []string{"ansh", "ansh", "ansh", "drop", "tick:1500"},
			Events: []string{"ansh", "ansb", "ans:1", "drop", "ext:5", "tick:250", "settle"}, Drain: true, ExtraDepth: 1},
	}
}

type histCheck struct {
	prop      string
	scenarios []histParams
	depthQ    int
	depthT    int
	statesQ   int
	statesT   int
	budgetQ   time.Duration
	budgetT   time.Duration
	accept    func(v core.Violation) bool
	rule      string
	assume    []string
	sched     []nschedTask // baselines for the schedule exploration part (one deviation at every point)
}

// runHistCheck runs the explicit-state search for every scenario and reports the violations
// that belong to the property.
func runHistCheck(hc histCheck) int {
	rep := core.NewReport(hc.prop, "model_checking")
	histCheckInto(rep, hc)
	return rep.Finish()
}

func histCheckInto(rep *core.Report, hc histCheck) {
	pool := core.NewPool()
	depth, maxStates, budget := hc.depthQ, hc.statesQ, hc.budgetQ
	if rep.Thorough() {
		depth, maxStates, budget = hc.depthT, hc.statesT, hc.budgetT
	}
	deadline := time.Now().Add(budget)
	totalS, totalT := 0, 0
	if v, ok := rep.Coverage["states"].(int); ok {
		totalS = v
	}
	if v, ok := rep.Coverage["transitions"].(int); ok {
		totalT = v
	}
	minDepth := -1
	for si, sc := range hc.scenarios {
		sub := core.NewReport(hc.prop, "model_checking")
		init := runHist(sc, nil, false)
		key := init.key
		init.w.Close()
		for _, v := range init.w.viol {
			sub.AddViolation(v)
		}
		st := core.BFSStats{}
		if len(init.w.viol) == 0 {
			st = core.BFS(pool, sub, core.BFSOpts{Op: "hist", Params: sc, MaxDepth: depth + sc.ExtraDepth, MaxStates: maxStates, Deadline: deadline, InitKey: key, Batch: 4})
		}
		totalS += st.States
		totalT += st.Transitions
		for _, v := range sub.Violations {
			if m, ok := v.Witness.(map[string]interface{}); ok {
				m["scenario"] = sc
			}
			if v.Property == hc.prop || v.Clause == "panic" || v.Clause == "livelock" || (hc.accept != nil && hc.accept(v)) {
				v.Property = hc.prop
				rep.AddViolation(v)
			}
		}
		for o := range sub.Outcomes {
			rep.Outcome(o)
		}
		for _, s := range sub.Samples {
			rep.AddSample(map[string]interface{}{"scenario": si, "history": s})
		}
		for _, e := range sub.HarnessErrs {
			rep.HarnessError("%s", e)
		}
		if !sub.Exhaustive {
			rep.Exhaustive = false
			rep.Coverage["cap_hit"] = sub.Coverage["cap_hit"]
		}
		if minDepth < 0 || st.Depth-sc.ExtraDepth < minDepth {
			minDepth = st.Depth - sc.ExtraDepth
		}
		rep.Coverage[fmt.Sprintf("scenario_%d_levels", si)] = st.LevelSizes
	}
	rep.Coverage["depth_completed"] = minDepth
	rep.Coverage["states"] = totalS
	rep.Coverage["transitions"] = totalT
	rep.Coverage["traces_validated_against_impl"] = totalT
	if len(hc.sched) > 0 {
		nodeSchedExplore(rep, pool, hc.prop, hc.sched, nodeSchedKinds, hc.accept)
	}
	rep.Coverage["rule"] = hc.rule
	rep.Assumptions = append(rep.Assumptions, hc.assume...)
}

var peerAssumption = []string{"peer model P: answers getheaders from the first locator hash on its best chain, serves any block it has, announces best-chain changes with headers after sendheaders, pings", "hist mode merges states that differ only in the phase of polling loops (DESIGN §3.4)", "every explored transition is an execution of the implementation (no separate model): traces_validated_against_impl = transitions"}

func c01Sched() []nschedTask {
	sc := c01Scenarios(false)
	first := histParams{Prop: "C01", Cfg: WorldCfg{InitialChain: 3, StartHeight: 1, SafeDelayMS: 2000, RemoveMissing: true}, Boot: "cold", Drain: true}
	one := histParams{Prop: "C01", Cfg: WorldCfg{InitialChain: 1, StartHeight: 1, SafeDelayMS: 2000, RemoveMissing: true}, Boot: "cold", Drain: true}
	return []nschedTask{
		// the start block is block 1: the very first block is processed while the stored chain is still only the genesis block
		{P: first, Hist: []string{"ans", "ans", "tick:250", "ans", "ans", "tick:250", "settle"}},
		{P: one, Hist: []string{"ans", "ans", "ans", "tick:250", "tick:250", "settle"}},
		{P: one, Hist: []string{"ans", "ans:1", "ans", "tick:250", "ext:1", "tick:250", "settle"}},
		{P: sc[0], Hist: []string{"ext:2", "ans", "reorg:1:2", "ans", "ans", "tick:250", "back:1", "settle"}},
		{P: sc[0], Hist: []string{"ext:12", "ans", "ans", "reorg:2:3", "tick:250", "settle"}},
		// a reorganisation from below the processed tip while a block of the old branch is between NextBlock and ProcessBlock
		{P: sc[0], Hist: []string{"ext:2", "ans", "tick:250", "reorg:3:4", "tick:250", "settle"}},
		{P: sc[0], Hist: []string{"ext:2", "ans", "ans", "tick:250", "reorg:4:5", "tick:250", "settle"}},
		{P: sc[1], Hist: []string{"ans", "ans", "reorg:3:4", "ans", "tick:250", "settle"}},
	}
}

func runC01() int {
	return runHistCheck(histCheck{prop: "C01", scenarios: c01Scenarios(false), depthQ: 5, depthT: 7, statesQ: 150000, statesT: 3000000,
		budgetQ: 150 * time.Second, budgetT: 25 * time.Minute, sched: c01Sched(),
		rule:   "explicit-state BFS over environment histories of the real Node.Run under the controlled scheduler against peer model P: events {answer oldest / second-oldest outstanding request, extend by 1/2/12, reorg depth 1/2, return to the abandoned branch, ping, tick 250 ms, settle (peer answers everything), duplicate last message, clean restart, connection drop}; from every reached state a fair drain (answers, announcements, pings, clock steps incl. 61 s and 601 s) must converge to P's best chain; in-sync clause checked at every HandleInSync. Plus stateless schedule exploration: three baselines (reorg while blocks are outstanding / with a full request window / during the initial sync) with one stall (250 ms) or pre-emption (2 alternatives) inserted at every scheduling point after the boot, judged by the same oracles",
		assume: peerAssumption})
}

// DebugHist prints a trace of one history (developer aid: check.bin debug-hist <scenario#> ev...).
func DebugHist(args []string) {
	sc := c01Scenarios(true)[0]
	if len(args) > 0 {
		var idx int
		fmtSscan(args[0], &idx)
		sc = c01Scenarios(true)[idx]
		args = args[1:]
	}
	traceOn = true
	r := runHist(sc, args, true)
	for _, l := range r.w.trace {
		println(l)
	}
	if os.Getenv("VERIF_DUMP") != "" {
		println(r.w.lastDump)
	}
	println("key", r.key, "outcome", r.outcome)
	if r.w.stopRequested {
		for i := 0; i < 60 && !(r.w.runDone && r.w.stopReturned); i++ {
			r.w.Tick(100 * time.Millisecond)
			r.w.answerRound()
		}
		println("STOP requested at", r.w.stopAt/1e6, "runDone", r.w.runDone, "stopReturned", r.w.stopReturned, "live:", liveThreads(r.w), "points", r.w.plan.Total)
	} else if r.w.plan != nil {
		println("points", r.w.plan.Total)
	}
	for _, v := range r.w.viol {
		println("VIOL", v.Property, v.Clause, "|", v.Class, "|", v.Detail)
	}
	r.w.Close()
}

// DebugHistScenario traces a history for a named scenario set.
func DebugHistScenario(name string, idx int, args []string) {
	var sc histParams
	switch name {
	case "C03":
		sc = c03Scenarios()[idx]
	default:
		if f, ok := debugScenarios[name]; ok {
			sc = f()[idx]
		} else {
			sc = c01Scenarios(true)[idx]
		}
	}
	traceOn = true
	if pl := os.Getenv("VERIF_PLAN"); pl != "" { // at:kind:alt
		var st planStep
		f := strings.Split(pl, ":")
		fmt.Sscan(f[0], &st.At)
		st.Kind = f[1]
		if len(f) > 2 {
			fmt.Sscan(f[2], &st.Alt)
		}
		sc.Plan = []planStep{st}
	}
	if fa := os.Getenv("VERIF_FAILAT"); fa != "" {
		fmt.Sscan(fa, &sc.FailAt)
	}
	if os.Getenv("VERIF_COLD") != "" {
		sc.Boot = "cold"
	}
	r := runHist(sc, args, sc.Drain)
	if os.Getenv("VERIF_OPLOG") != "" {
		for i, o := range r.w.Store.OpLog {
			println("OP", i+1, o)
		}
	}
	for _, l := range r.w.trace {
		println(l)
	}
	println("key", r.key, "outcome", r.outcome)
	if r.w.stopRequested {
		for i := 0; i < 60 && !(r.w.runDone && r.w.stopReturned); i++ {
			r.w.Tick(100 * time.Millisecond)
			r.w.answerRound()
		}
		println("STOP requested at", r.w.stopAt/1e6, "runDone", r.w.runDone, "stopReturned", r.w.stopReturned, "live:", liveThreads(r.w), "points", r.w.plan.Total)
	} else if r.w.plan != nil {
		println("points", r.w.plan.Total)
	}
	for _, v := range r.w.viol {
		println("VIOL", v.Property, v.Clause, "|", v.Class, "|", v.Detail)
	}
	r.w.Close()
}

func init() {
	debugScenarios["C06"] = c06Scenarios
	debugScenarios["C07"] = c07Scenarios
	debugScenarios["C14"] = c14Scenarios
	debugScenarios["C05"] = c05NodeScenarios
	debugScenarios["C11"] = c11Scenarios
	debugScenarios["C03"] = c03Scenarios
	debugScenarios["C12"] = c12Scenarios
}

var debugScenarios = map[string]func() []histParams{}
