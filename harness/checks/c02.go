//go:build verif

package checks

import (
	"encoding/json"
	"fmt"
	"strings"
	"time"

	"github.com/tokenized/pkg/bitcoin"
	"github.com/tokenized/pkg/wire"
	"github.com/tokenized/spynode/internal/verif/core"
)

// C02: the trusted connection sends arbitrary header/block sequences drawn from a block tree
// (plus unknown headers); the stored chain must stay hash-linked, the two lookup directions
// inverse, and HandleHeaders heights contiguous (shadow chain). DESIGN §4 C02.

// buildAdversarialTree adds named blocks to the world's tree: trunk b1.. exists from boot as
// Best; forks: f3,f4,f5 on b2; e5,e6 on b4; unknown u1,u2 with an unknown parent.
func (w *World) buildAdversarialTree() {
	w.alias = map[string]string{}
	for i, n := range w.Best {
		w.alias[fmt.Sprintf("b%d", i)] = n
	}
	// trunk up to b6: blocks the node has not been told about (mined at world creation)
	for i, n := range w.trunk {
		w.alias[fmt.Sprintf("b%d", i)] = n
	}
	for i := len(w.trunk); i <= 6; i++ {
		b := w.Tree.mine(w.alias[fmt.Sprintf("b%d", i-1)], nil, nil)
		w.alias[fmt.Sprintf("b%d", i)] = b.name
	}
	mineOn := func(name, parent string) {
		b := w.Tree.mine(w.alias[parent], nil, nil)
		w.alias[name] = b.name
	}
	mineOn("f3", "b2")
	mineOn("f4", "f3")
	mineOn("f5", "f4")
	mineOn("e5", "b4")
	mineOn("e6", "e5")
	mineOn("d2", "b1") // fork below the start block (start height 2)
	mineOn("d3", "d2")
	if len(w.trunk) > 1001 {
		// deep fork across the 1000-header file boundary
		mineOn("x998", "b997")
		mineOn("x999", "x998")
		mineOn("x1000", "x999")
		mineOn("x1001", "x1000")
	}
	// unknown headers: parent is not in the tree
	var bogus bitcoin.Hash32
	bogus[0] = 0xee
	u1 := core.MakeBlock(bogus, 9, 901, nil)
	w.Tree.blocks["u1"] = &tblock{name: "u1", height: 9, msg: u1, hash: *u1.Header.BlockHash()}
	w.Tree.byHash[*u1.Header.BlockHash()] = "u1"
	u2 := core.MakeBlock(*u1.Header.BlockHash(), 10, 902, nil)
	w.Tree.blocks["u2"] = &tblock{name: "u2", height: 10, msg: u2, hash: *u2.Header.BlockHash(), parent: "u1"}
	w.Tree.byHash[*u2.Header.BlockHash()] = "u2"
	w.alias["u1"], w.alias["u2"] = "u1", "u2"
}

func (w *World) applyAdvEvent(p []string) (bool, bool) {
	switch p[0] {
	case "h": // h:<name>,<name>...
		if w.P == nil || w.P.conn == nil || w.P.conn.IsClosed() || w.P.conn.Peer.IsClosed() {
			return true, false
		}
		hm := wire.NewMsgHeaders()
		if len(p) > 1 && p[1] != "" {
			for _, n := range strings.Split(p[1], ",") {
				hd := w.Tree.blocks[w.alias[n]].msg.Header
				hm.AddBlockHeader(&hd)
			}
		}
		w.send(w.P, hm)
		w.settle()
		return true, true
	case "b": // b:<name>
		if w.P == nil || w.P.conn == nil || w.P.conn.IsClosed() || w.P.conn.Peer.IsClosed() {
			return true, false
		}
		w.send(w.P, w.Tree.blocks[w.alias[p[1]]].msg)
		w.settle()
		return true, true
	}
	return false, false
}

// shadowMonitor checks the HandleHeaders stream: each announced height h must satisfy
// h <= tip+1, its parent must be the block announced/held at h-1, and it replaces everything
// from h upward.
func (w *World) shadowCheck() {
	if w.shadowDone >= len(w.H[0].events) {
		return
	}
	for ; w.shadowDone < len(w.H[0].events); w.shadowDone++ {
		e := w.H[0].events[w.shadowDone]
		if e.Kind != "headers" {
			continue
		}
		if e.NodeID != w.shadowGen {
			// a new node object re-announces nothing by itself; keep the shadow chain
			w.shadowGen = e.NodeID
		}
		h := e.Height
		if w.shadow == nil {
			w.shadow = map[int]bitcoin.Hash32{}
			w.shadowTip = -1
		}
		if w.shadowTip >= 0 && h > w.shadowTip+1 {
			w.fail("C02", "announced-heights-contiguous", "height skipped", fmt.Sprintf("HandleHeaders announced height %d while the last announced tip was %d", h, w.shadowTip))
		}
		if prev, ok := w.shadow[h-1]; ok && prev != e.Prev {
			w.fail("C02", "announced-parent-link", "announced block's parent is not the block at h-1", fmt.Sprintf("HandleHeaders height %d: parent %s, but the block announced at height %d was %s", h, e.Prev.String()[:8], h-1, prev.String()[:8]))
		}
		for k := range w.shadow {
			if k >= h {
				delete(w.shadow, k)
			}
		}
		w.shadow[h] = e.Hash
		w.shadowTip = h
	}
}

// fullChainInvariants: linkage for every height, inverse maps both ways (C02).
func (w *World) fullChainInvariants() {
	w.Store.Paused = true
	defer func() { w.Store.Paused = false }()
	ctx := core.Ctx()
	tip := w.Node.LastHeight(ctx)
	// heights to check: everything for short chains; for long ones the last 24 and +-3 around
	// every 1000 boundary (older files are immutable between events)
	var hs []int
	for h := 0; h <= tip; h++ {
		if tip <= 64 || h >= tip-24 || h%1000 <= 3 || h%1000 >= 997 {
			hs = append(hs, h)
		}
	}
	// hash -> height map read once (private field, secondary to the public queries)
	rev := map[bitcoin.Hash32]int{}
	haveRev := false
	if f, ok := core.Field(w.Node, "blocks", "heights"); ok && f.Kind().String() == "map" {
		haveRev = true
		it := f.MapRange()
		for it.Next() {
			var k bitcoin.Hash32
			kv := it.Key()
			for i := 0; i < 32; i++ {
				k[i] = byte(kv.Index(i).Uint())
			}
			rev[k] = int(it.Value().Int())
		}
	}
	hashAt := map[int]*bitcoin.Hash32{}
	get := func(h int) *bitcoin.Hash32 {
		if x, ok := hashAt[h]; ok {
			return x
		}
		x, err := w.Node.Hash(ctx, h)
		if err != nil {
			x = nil
		}
		hashAt[h] = x
		return x
	}
	for _, h := range hs {
		hh := get(h)
		if hh == nil {
			w.fail("C02", "hash-by-height-available", "Hash(h) fails within the chain", fmt.Sprintf("Hash(%d) failed with tip %d", h, tip))
			return
		}
		if h >= 1 {
			below := get(h - 1)
			name, known := w.Tree.byHash[*hh]
			if !known {
				w.fail("C02", "stored-block-from-peer", "unknown block stored", fmt.Sprintf("height %d holds a block the peer never sent", h))
				return
			}
			if below == nil || !w.Tree.blocks[name].msg.Header.PrevBlock.Equal(below) {
				w.fail("C02", "parent-link", "stored block's parent is not the block below", fmt.Sprintf("block %s at height %d does not link to the block held at height %d", w.aliasOf(name), h, h-1))
				return
			}
		}
		if haveRev {
			if got, ok := rev[*hh]; !ok || got != h {
				w.fail("C02", "inverse-lookups", "Height(Hash(h)) != h", fmt.Sprintf("Hash(%d)=%s but the hash maps to height %d (known %v)", h, hh.String()[:8], got, ok))
				return
			}
		}
	}
	if haveRev {
		if len(rev) != tip+1 {
			w.fail("C02", "inverse-lookups", "hash map size differs from chain length", fmt.Sprintf("%d hashes are known but the chain has %d blocks (stale or missing entries)", len(rev), tip+1))
			return
		}
		for k, h := range rev {
			if h > tip {
				w.fail("C02", "inverse-lookups", "hash known at a height above the tip", fmt.Sprintf("hash %s (%s) is mapped to height %d but the tip is %d", k.String()[:8], w.aliasOf(w.Tree.byHash[k]), h, tip))
				return
			}
		}
	}
}

func (w *World) nodeHeightOf(h *bitcoin.Hash32) (int, bool) {
	// Node has no public hash->height query; use the block repository through reflection.
	f, ok := core.Field(w.Node, "blocks", "heights")
	if !ok {
		return 0, false
	}
	it := f.MapRange()
	for it.Next() {
		kv := it.Key()
		match := true
		for i := 0; i < 32; i++ {
			if byte(kv.Index(i).Uint()) != h[i] {
				match = false
				break
			}
		}
		if match {
			return int(it.Value().Int()), true
		}
	}
	return 0, false
}

func (w *World) aliasOf(name string) string {
	for a, n := range w.alias {
		if n == name {
			return a
		}
	}
	return name
}

func c02Scenarios() []histParams {
	ev := []string{"h:b4", "h:b4,b5", "h:b5", "h:b4,b4", "h:b3", "h:b2,b3", "h:f3", "h:f3,f4", "h:f4", "h:e5", "h:b4,e5",
		"h:b4,b5,e5", "h:d2,d3", "h:u1", "h:b4,u1", "h:", "h:f3,b4",
		"b:b4", "b:b5", "b:f3", "b:f4", "b:e5", "b:b3", "b:u1", "tick:250"}
	evDeep := []string{"h:x998,x999,x1000,x1001", "h:x998", "h:x999,x1000", "b:x998", "b:x999", "b:x1000", "b:x1001", "h:b1004", "b:b1004", "h:b1003,b1004", "h:", "tick:250"}
	deep := histParams{Prop: "C02", Cfg: WorldCfg{InitialChain: 1003, StartHeight: 1001, ExtraTrunk: 3, SafeDelayMS: 2000, RemoveMissing: true}, Boot: "synced", Events: evDeep, Adversarial: true}
	return []histParams{deep, {Prop: "C02", Cfg: WorldCfg{InitialChain: 3, StartHeight: 2, ExtraTrunk: 3, SafeDelayMS: 2000, RemoveMissing: true}, Boot: "synced", Events: ev, Adversarial: true},
		{Prop: "C02", Cfg: WorldCfg{InitialChain: 3, StartHeight: 5, ExtraTrunk: 3, SafeDelayMS: 2000, RemoveMissing: false}, Boot: "synced", Events: ev, Adversarial: true, StartUnknown: true}}
}

func init() {
	All["C02"] = func() int {
		rep := core.NewReport("C02", "model_checking")
		histCheckInto(rep, histCheck{prop: "C02", scenarios: c02Scenarios(), depthQ: 5, depthT: 8, statesQ: 300000, statesT: 5000000,
			budgetQ: 150 * time.Second, budgetT: 25 * time.Minute,
			rule:   "explicit-state BFS over sequences of messages the trusted connection sends after a normal handshake: headers messages with lists drawn from a tree (trunk, fork at a processed block, fork among pending blocks, fork below the start block, duplicates, gaps, unknown parents, empty) and block messages (requested, unrequested, duplicate, unknown), with block-processor steps (tick) anywhere; after every event: every stored block links to the block below, Hash/Height inverse in both directions (private map read by reflection), HandleHeaders heights form a chain on a shadow list; no panic. Second scenario: start block hash not on the initial chain (pre-start header mode).",
			assume: []string{"no assumption on the peer's behaviour beyond well-formed wire messages", "hist mode: canonical thread schedule between events"}})
		repoConc(rep, "C02")
		c02Faults(rep)
		return rep.Finish()
	}
	Replayers["C02"] = func(wit json.RawMessage) []core.Violation { return histReplay(wit, "C02") }
	debugScenarios["C02"] = c02Scenarios
}

// c02Faults: the linkage invariants also have to survive a storage operation that fails once while
// the peer sends (and repeats) its headers: header sync below the start block across the
// 1000-header file boundary, every storage operation failing in turn, the peer's headers messages
// delivered a second time afterwards; the C02 invariants are evaluated after every event.
type c02FaultTask struct {
	P    histParams `json:"p"`
	Hist []string   `json:"hist"`
}

func c02Faults(rep *core.Report) {
	p := histParams{Prop: "C02", Cfg: WorldCfg{InitialChain: 1003, StartHeight: 1002, SafeDelayMS: 2000, RemoveMissing: true}, Boot: "cold"}
	hist := []string{"ans", "duph:0", "settle", "duph:0", "duph:1", "ext:1", "settle"}
	base := runHist(p, hist, false)
	ops := base.w.Store.Ops
	base.w.Close()
	for _, v := range base.w.viol {
		if v.Property == "C02" {
			rep.AddViolation(v)
		}
	}
	pool := core.NewPool()
	var tasks []interface{}
	for j := 1; j <= ops; j++ {
		q := p
		q.FailAt = j
		tasks = append(tasks, c02FaultTask{q, hist})
	}
	runs := 0
	pool.Map("c02fault", tasks, func(i int, r core.TaskResult) {
		if r.Died != "" || r.Err != "" {
			rep.HarnessError("fault %d: %s%s", i+1, r.Died, r.Err)
			return
		}
		var vs []core.Violation
		json.Unmarshal(r.Res, &vs)
		runs++
		for _, v := range vs {
			rep.AddViolation(v)
		}
	})
	addInt(rep, "states", runs)
	addInt(rep, "transitions", runs*len(hist))
	addInt(rep, "traces_validated_against_impl", runs*len(hist))
	rep.Coverage["fault_runs"] = runs
	rep.Coverage["fault_rule"] = "header sync below the start block across the 1000-header file boundary with the peer repeating its headers messages: each of the storage operations of that history fails once (one run per operation); linkage / inverse-map invariants after every event"
}

func init() {
	core.RegisterOp("c02fault", func(arg json.RawMessage) (interface{}, error) {
		var t c02FaultTask
		if err := json.Unmarshal(arg, &t); err != nil {
			return nil, err
		}
		r := runHist(t.P, t.Hist, false)
		defer r.w.Close()
		var out []core.Violation
		for _, v := range r.w.viol {
			if v.Property == "C02" || v.Clause == "panic" {
				v.Property = "C02"
				v.Class += " (after a failed storage operation)"
				v.Witness = map[string]interface{}{"hist": t.Hist, "scenario": t.P}
				out = append(out, v)
			}
		}
		return out, nil
	})
}
