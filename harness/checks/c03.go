//go:build verif

package checks

import (
	"encoding/json"
	"time"

	"github.com/tokenized/spynode/internal/verif/core"
)

func txCfg(untrusted int) WorldCfg {
	return WorldCfg{InitialChain: 3, StartHeight: 2, SafeDelayMS: 2000, RemoveMissing: true, Untrusted: untrusted}
}

func c03Scenarios() []histParams {
	ev := []string{"inv:T:R1", "tx:T:R1", "tx:U1:R1", "inv:U1:R1", "uans:U1", "ans", "tx:T:R2", "tx:U1:I1", "local:R1",
		"mine:R1", "mine:D2", "mine+:R1,R2", "mine+:", "tick:250", "settle", "restart", "crash"}
	// back-pressure: more relevant txs relayed back to back than the node's tx channel buffers (100)
	burst := txCfg(1)
	burst.Burst = 104
	contracts := txCfg(1)
	contracts.Contracts = true
	evB := []string{"burst:T", "burst:U1", "tx:T:R1", "mine+:R1", "mine:B000,B103", "ans", "tick:250", "settle"}
	return []histParams{{Prop: "C03", Cfg: txCfg(1), Boot: "synced", Events: ev, Tx: true},
		{Prop: "C03", Cfg: burst, Boot: "synced", Events: evB, Tx: true},
		// a client that subscribes to contract-wide actions only (no push data)
		{Prop: "C03", Cfg: contracts, Boot: "synced", Events: []string{"tx:T:K1", "tx:U1:K1", "tx:T:K2", "tx:T:R1", "local:K1", "mine+:K1", "mine+:K1,K2", "mine+:R1", "restart", "tick:250"}, Tx: true, ContractsOnly: true}}
}

func init() {
	All["C03"] = func() int {
		return runHistCheck(histCheck{prop: "C03", scenarios: c03Scenarios(), depthQ: 4, depthT: 6, statesQ: 200000, statesT: 3000000,
			budgetQ: 150 * time.Second, budgetT: 25 * time.Minute,
			sched: []nschedTask{
				{P: c03Scenarios()[0], Hist: []string{"multi:inv:T:R1|tx:U1:R1", "ans", "mine:R1,R2", "ans", "multi:tx:T:R2|tx:U1:R2", "tick:250"}},
				{P: c03Scenarios()[0], Hist: []string{"multi:tx:T:R1|tx:U1:R1|local:R1", "mine:R1", "multi:ans|tx:U1:R1", "tick:250", "tx:T:R1"}},
			},
			rule:   "(with a schedule exploration part: two baselines with concurrent arrivals of the same tx from the trusted peer, an untrusted peer and the application and a confirming block racing a re-announcement; one stall / pre-emption at every scheduling point) explicit-state BFS over histories of how txs R1 (relevant), R2 (child of R1), I1 (irrelevant) reach the real node: inv/tx from the trusted peer and a verified untrusted peer, answers to getdata, local submission, blocks containing them, empty blocks, clock, clean restart; per handler and txid: HandleTx at most once, completeness, no irrelevant delivery, spent outputs per input, both handlers identical",
			assume: peerAssumption})
	}
	Replayers["C03"] = func(wit json.RawMessage) []core.Violation { return histReplay(wit, "C03") }
}
