//go:build verif

package checks

import (
	"encoding/json"
	"fmt"

	"github.com/tokenized/pkg/bitcoin"
	"github.com/tokenized/pkg/wire"
	"github.com/tokenized/spynode/internal/platform/config"
	"github.com/tokenized/spynode/internal/spynode"
	"github.com/tokenized/spynode/internal/verif/core"
)

// C04: merkle proofs of confirmations, through the real path (in-sync node, peer mines one block),
// for every block size / relevant-position subset / seen-before pattern within the bounds, and
// corrupted bodies under an unchanged header. DESIGN §4 C04.

type c04Task struct {
	N       int    `json:"n"`        // transactions in the block including the coinbase
	RelMask uint32 `json:"rel_mask"` // bit i (1 <= i < n): tx at index i is relevant
	Seen    string `json:"seen"`     // none | all | alt : which relevant txs were delivered unconfirmed before
	Corrupt string `json:"corrupt"`  // "" | drop:i | insert:i | swap:i:j | alter:i
	Syncing bool   `json:"syncing"`  // corrupted block served during the initial sync (node not in sync yet)
	Reorg   bool   `json:"reorg,omitempty"` // after the block was processed a competing block at the same height with the same txs in another order wins
	CoinbaseRel bool `json:"coinbase_rel,omitempty"` // the coinbase (index 0) pays the subscribed key hash
	Conflict bool  `json:"conflict,omitempty"` // every relevant tx that was seen before also saw a double spend of itself (flagged unsafe) before the block
	Crash   int    `json:"crash,omitempty"` // >0: the block is part of the initial sync and the process dies after the (Crash-1)-th storage mutation, then restarts
	Direct  bool   `json:"direct"`   // corrupted block handed straight to the exported Node.ProcessBlock of a loaded, not yet running node
}

type c04Result struct {
	Violations []core.Violation `json:"violations"`
	Outcome    string           `json:"outcome"`
}

func c04Tx(i int, relevant bool) *wire.MsgTx {
	script := core.P2PKHScript(otherKey)
	if relevant {
		script = core.P2PKHScript(subKey)
	}
	op := wire.OutPoint{Hash: bitcoin.Hash32{0xc4, byte(i)}, Index: uint32(i)}
	return core.MakeTx([]wire.OutPoint{op}, [][]byte{core.PushScript([]byte{byte(i), 0x30})}, [][]byte{script}, uint32(4000+i))
}

// c04Syncing: the block is part of the peer's chain before the node starts; its body is served
// corrupted while the node is still syncing.
func c04Syncing(t c04Task) c04Result {
	w := NewWorld(WorldCfg{InitialChain: 3, StartHeight: 2, SafeDelayMS: 2000, RemoveMissing: true})
	w.cfg.Subscribe = [][]byte{subKey[:]}
	w.hist = []string{fmt.Sprintf("%+v", t)}
	var txs []*wire.MsgTx
	var names []string
	for i := 1; i < t.N; i++ {
		tx := c04Tx(i, t.RelMask&(1<<uint(i)) != 0)
		name := fmt.Sprintf("x%d", i)
		w.Txs[name], w.TxNames[*tx.TxHash()] = tx, name
		w.txOrder = append(w.txOrder, name)
		txs, names = append(txs, tx), append(names, name)
	}
	b := w.Tree.mine(w.Best[len(w.Best)-1], txs, names)
	w.Best = append(w.Best, b.name)
	bad := corruptBlock(b.msg, t.Corrupt)
	ids := make([]bitcoin.Hash32, len(bad.Transactions))
	for i, x := range bad.Transactions {
		ids[i] = *x.TxHash()
	}
	var res c04Result
	if core.IndependentMerkleRoot(ids) == b.msg.Header.MerkleRoot {
		w.Close()
		res.Outcome = "corruption keeps the root (not asserted)"
		return res
	}
	good := b.msg
	b.msg = bad
	w.StartNode()
	w.settle()
	for i := 0; i < 8; i++ {
		w.answerRound()
		w.pingNode()
		w.Tick(300e6)
	}
	b.msg = good
	w.PanicViolations("C04")
	if h := w.Node.LastHeight(core.Ctx()); h >= b.height {
		w.fail("C04", "bad-merkle-rejected", "chain advanced on a block whose txs do not hash to the header's root ("+corruptKind(t.Corrupt)+", while syncing)", fmt.Sprintf("height %d reached with corrupted body %s at height %d", h, t.Corrupt, b.height))
	}
	for _, e := range w.H[0].events {
		if (e.Kind == "tx" || e.Kind == "update") && e.State.MerkleProof != nil && *e.State.MerkleProof.BlockHeader.BlockHash() == b.hash {
			w.fail("C04", "bad-merkle-nothing-delivered", "confirmation delivered from a bad-merkle block ("+corruptKind(t.Corrupt)+", while syncing)", fmt.Sprintf("%s %s", e.Kind, w.TxNames[e.TxID]))
			break
		}
		if e.Kind == "headers" && e.Hash == b.hash {
			w.fail("C04", "bad-merkle-nothing-delivered", "header of a bad-merkle block announced ("+corruptKind(t.Corrupt)+", while syncing)", t.Corrupt)
			break
		}
	}
	res.Outcome = "corrupt " + corruptKind(t.Corrupt) + " while syncing"
	for i := range w.viol {
		w.viol[i].Witness = map[string]interface{}{"task": t}
	}
	for _, v := range w.viol {
		if v.Property == "C04" || v.Clause == "panic" {
			v.Property = "C04"
			res.Violations = append(res.Violations, v)
		}
	}
	w.Close()
	return res
}

// c04CrashRun: the block (height 4) is part of the peer's chain before the node starts; the node
// syncs it, dies after storage mutation idx (idx < 0: no crash, just count), restarts on what
// survived and syncs again. Every notification of the whole run - before and after the crash - must
// carry a proof for the header the node holds at that moment.
func c04CrashRun(t c04Task, idx int) (res c04Result, mutations int) {
	w := NewWorld(WorldCfg{InitialChain: 3, StartHeight: 2, SafeDelayMS: 2000, RemoveMissing: true})
	w.cfg.Subscribe = [][]byte{subKey[:]}
	w.hist = []string{fmt.Sprintf("%+v crash after mutation %d", t, idx)}
	var txs []*wire.MsgTx
	var names []string
	for i := 1; i < t.N; i++ {
		tx := c04Tx(i, t.RelMask&(1<<uint(i)) != 0)
		name := fmt.Sprintf("x%d", i)
		w.Txs[name], w.TxNames[*tx.TxHash()] = tx, name
		w.txOrder = append(w.txOrder, name)
		txs, names = append(txs, tx), append(names, name)
	}
	b := w.Tree.mine(w.Best[len(w.Best)-1], txs, names)
	w.Best = append(w.Best, b.name)
	b2 := w.Tree.mine(b.name, nil, nil)
	w.Best = append(w.Best, b2.name)
	w.baseStore = w.Store.Clone()
	w.StartNode()
	w.settle()
	w.settleMacro()
	mutations = len(w.Store.Log)
	if idx >= 0 && idx <= mutations {
		img := core.ImageAt(w.baseStore, w.Store.Log, idx)
		img.RemoveMissingErr = w.Store.RemoveMissingErr
		w.S.KillAll(true)
		w.P = nil
		w.Store = img
		w.StartNode()
		w.settle()
		w.settleMacro()
		if ok, why := w.Converged(); !ok {
			w.fail("C04", "resyncs-after-crash", "node restarted on the crash image does not reach the peer's tip", why)
		}
	}
	w.PanicViolations("C04")
	w.oracleFlags(false)
	tr := w.tracks(0)
	for i, n := range names {
		if t.RelMask&(1<<uint(i+1)) == 0 {
			if tr[n] != nil {
				w.fail("C04", "only-relevant", "irrelevant block tx notified", n)
			}
			continue
		}
		if k := tr[n]; k == nil || k.states[len(k.states)-1].MerkleProof == nil {
			w.fail("C04", "confirmation-notified", fmt.Sprintf("relevant tx at index %d of %d never notified with a proof (block synced, crash, synced again)", i+1, t.N), n)
		}
	}
	res.Outcome = fmt.Sprintf("n=%d crash-resync", t.N)
	for i := range w.viol {
		w.viol[i].Witness = map[string]interface{}{"task": c04Task{N: t.N, RelMask: t.RelMask, Crash: idx + 1}}
	}
	for _, v := range w.viol {
		if v.Property == "C04" || v.Clause == "panic" {
			v.Property = "C04"
			res.Violations = append(res.Violations, v)
		}
	}
	w.Close()
	return
}

// c04Crash: every crash point of the sync of that block (task.Crash == -1), or one of them.
func c04Crash(t c04Task) c04Result {
	if t.Crash > 0 {
		r, _ := c04CrashRun(t, t.Crash-1)
		return r
	}
	res, n := c04CrashRun(t, -1)
	for i := 0; i <= n && len(res.Violations) == 0; i++ {
		r, _ := c04CrashRun(t, i)
		res.Violations = append(res.Violations, r.Violations...)
	}
	res.Outcome = fmt.Sprintf("n=%d crash-resync (%d crash points)", t.N, n+1)
	return res
}

// c04Direct: the block processing entry point itself (exported Node.ProcessBlock) on a loaded node
// that is not in sync: a corrupted body must not extend the chain or notify anything.
func c04Direct(t c04Task) c04Result {
	var res c04Result
	ctx := core.Ctx()
	st := core.NewRecStore(true)
	genesis := core.GenesisHeader()
	cfg := config.Config{Net: bitcoin.MainNet, StartHash: *genesis.BlockHash()}
	w := &World{TxNames: map[bitcoin.Hash32]string{}, Txs: map[string]*wire.MsgTx{}, Tree: newTree()}
	w.fetcher = &fetcher{w}
	node := spynode.NewNode(cfg, st, w.fetcher, w.fetcher)
	rec := &recorder{w: w}
	w.H[0] = rec
	node.RegisterHandler(rec)
	node.SubscribePushDatas(ctx, [][]byte{subKey[:]})
	if err := node.AddPeer(ctx, "10.0.0.9:8333", 1); err != nil {
		res.Violations = append(res.Violations, core.Violation{Property: "C04", Clause: "load", Class: "node does not load", Detail: err.Error()})
		return res
	}
	var txs []*wire.MsgTx
	for i := 1; i < t.N; i++ {
		txs = append(txs, c04Tx(i, t.RelMask&(1<<uint(i)) != 0))
	}
	good := core.MakeBlock(*genesis.BlockHash(), 1, 77, txs)
	bad := corruptBlock(good, t.Corrupt)
	ids := make([]bitcoin.Hash32, len(bad.Transactions))
	for i, x := range bad.Transactions {
		ids[i] = *x.TxHash()
	}
	if core.IndependentMerkleRoot(ids) == good.Header.MerkleRoot {
		res.Outcome = "corruption keeps the root (not asserted)"
		return res
	}
	var err error
	pv := guard(func() { err = node.ProcessBlock(ctx, bad) })
	fail := func(clause, class, detail string) {
		res.Violations = append(res.Violations, core.Violation{Property: "C04", Clause: clause, Class: class, Detail: detail, Witness: map[string]interface{}{"task": t}})
	}
	if pv != nil {
		fail("panic", "ProcessBlock panics on a corrupted body", fmt.Sprint(pv))
	}
	if h := node.LastHeight(ctx); h != 0 {
		fail("bad-merkle-rejected", "chain advanced on a block whose txs do not hash to the header's root ("+corruptKind(t.Corrupt)+", direct ProcessBlock)", fmt.Sprintf("ProcessBlock(%s) returned %v and the height is %d", t.Corrupt, err, h))
	}
	if len(rec.events) > 0 {
		fail("bad-merkle-nothing-delivered", "callback from a bad-merkle block ("+corruptKind(t.Corrupt)+", direct ProcessBlock)", fmt.Sprintf("%d callbacks, first %s", len(rec.events), rec.events[0].Kind))
	}
	res.Outcome = "corrupt " + corruptKind(t.Corrupt) + " direct"
	return res
}

func c04Exec(t c04Task) c04Result {
	if t.Direct {
		return c04Direct(t)
	}
	if t.Crash != 0 {
		return c04Crash(t)
	}
	if t.Syncing {
		return c04Syncing(t)
	}
	w := NewWorld(WorldCfg{InitialChain: 3, StartHeight: 2, SafeDelayMS: 2000, RemoveMissing: true})
	w.cfg.Subscribe = [][]byte{subKey[:]}
	w.StartNode()
	w.settle()
	w.hist = []string{fmt.Sprintf("%+v", t)}
	var res c04Result
	if !w.bootSync(60) {
		w.fail("C04", "boot-sync", "initial sync", "node did not reach in-sync")
		res.Violations = w.viol
		w.Close()
		return res
	}
	w.lastUnsync = w.S.Now
	var txs []*wire.MsgTx
	var names []string
	seenCount := 0
	for i := 1; i < t.N; i++ {
		rel := t.RelMask&(1<<uint(i)) != 0
		tx := c04Tx(i, rel)
		name := fmt.Sprintf("x%d", i)
		w.Txs[name] = tx
		w.TxNames[*tx.TxHash()] = name
		w.txOrder = append(w.txOrder, name)
		txs = append(txs, tx)
		names = append(names, name)
		if rel {
			seen := t.Seen == "all" || (t.Seen == "alt" && seenCount%2 == 0)
			seenCount++
			if seen {
				w.noteArrival(name, "T", "tx")
				w.send(w.P, tx)
				w.settle()
				if t.Conflict {
					// a double spend attempt on its input, seen unconfirmed: the tx is flagged unsafe and still confirms
					op := tx.TxIn[0].PreviousOutPoint
					ds := core.MakeTx([]wire.OutPoint{op}, [][]byte{core.PushScript([]byte{byte(i), 0x31})}, [][]byte{core.P2PKHScript(otherKey)}, uint32(4500+i))
					dn := fmt.Sprintf("y%d", i)
					w.Txs[dn], w.TxNames[*ds.TxHash()] = ds, dn
					w.txOrder = append(w.txOrder, dn)
					w.noteArrival(dn, "T", "tx")
					w.send(w.P, ds)
					w.settle()
				}
			}
		}
	}
	w.Tick(100e6)
	before := w.Node.LastHeight(core.Ctx())
	if t.CoinbaseRel {
		core.CoinbaseScript = core.P2PKHScript(subKey)
	}
	b := w.Tree.mine(w.Best[len(w.Best)-1], txs, names)
	core.CoinbaseScript = nil
	if t.CoinbaseRel {
		cb := b.msg.Transactions[0]
		w.Txs["cb"], w.TxNames[*cb.TxHash()] = cb, "cb"
		w.txOrder = append(w.txOrder, "cb")
		b.txs = append([]string{"cb"}, b.txs...)
	}
	w.Best = append(w.Best, b.name)
	if t.Corrupt == "" {
		w.Announce(w.P)
		w.settle()
		w.settleMacro()
		w.PanicViolations("C04")
		w.oracleFlags(false)
		// every relevant tx must have been notified with a proof: new if not seen before, update otherwise
		tr := w.tracks(0)
		for i, n := range names {
			if t.RelMask&(1<<uint(i+1)) == 0 {
				if tr[n] != nil {
					w.fail("C04", "only-relevant", "irrelevant block tx notified", n)
				}
				continue
			}
			k := tr[n]
			if k == nil {
				w.fail("C04", "confirmation-notified", fmt.Sprintf("relevant tx at index %d of %d not notified", i+1, t.N), n)
				continue
			}
			last := k.states[len(k.states)-1]
			if last.MerkleProof == nil {
				w.fail("C04", "confirmation-carries-proof", fmt.Sprintf("no proof for index %d of %d", i+1, t.N), n)
			}
			_, seenBefore := w.firstBody(n)
			if seenBefore && k.newCount != 1 {
				w.fail("C04", "seen-before-gets-update", "previously delivered tx not confirmed by an update", fmt.Sprintf("%s: %d new notifications", n, k.newCount))
			}
			if seenBefore && len(k.states) < 2 {
				w.fail("C04", "seen-before-gets-update", "previously delivered tx got no confirmation update", n)
			}
			if !seenBefore && (k.newCount != 1 || k.states[0].MerkleProof == nil) {
				w.fail("C04", "first-seen-gets-new-with-proof", "tx first seen in the block not delivered as new with proof", n)
			}
		}
		if t.CoinbaseRel {
			k := tr["cb"]
			if k == nil || k.newCount != 1 || k.states[0].MerkleProof == nil {
				w.fail("C04", "first-seen-gets-new-with-proof", "relevant coinbase (index 0) not delivered as new with proof", fmt.Sprintf("block of %d txs", t.N))
			}
		}
		res.Outcome = fmt.Sprintf("n=%d relevant=%d seen=%s", t.N, seenCount, t.Seen)
		if t.Reorg && len(w.viol) == 0 {
			// The peer reorganises one block deep: the competing block holds one more tx in front and
			// the same txs rotated by one, so every index and most paths differ; a child makes it win.
			extra := c04Tx(40, false)
			w.Txs["xx"], w.TxNames[*extra.TxHash()] = extra, "xx"
			w.txOrder = append(w.txOrder, "xx")
			rtxs, rnames := []*wire.MsgTx{extra}, []string{"xx"}
			for i := range txs {
				j := (i + 1) % len(txs)
				rtxs, rnames = append(rtxs, txs[j]), append(rnames, names[j])
			}
			w.Abandoned = append([]string(nil), w.Best...)
			w.Best = append([]string(nil), w.Best[:len(w.Best)-1]...)
			b2 := w.Tree.mine(w.Best[len(w.Best)-1], rtxs, rnames)
			w.Best = append(w.Best, b2.name)
			b3 := w.Tree.mine(b2.name, nil, nil)
			w.Best = append(w.Best, b3.name)
			w.everReorged, w.lastUnsync = true, w.S.Now
			w.Announce(w.P)
			w.settle()
			w.settleMacro()
			w.PanicViolations("C04")
			w.oracleFlags(false)
			if ok, why := w.Converged(); !ok {
				w.fail("C04", "reorg-followed", "node did not follow the one-block reorganisation", why)
			}
			tr := w.tracks(0)
			for i, n := range names {
				if t.RelMask&(1<<uint(i+1)) == 0 || len(w.viol) > 0 {
					continue
				}
				k := tr[n]
				last := k.states[len(k.states)-1]
				if last.MerkleProof == nil || *last.MerkleProof.BlockHeader.BlockHash() != b2.hash {
					w.fail("C04", "reconfirmation-carries-new-proof", "tx confirmed again on the winning branch not notified with a proof for the new block", fmt.Sprintf("%s: last notification has proof %v", n, last.MerkleProof != nil))
				}
			}
			res.Outcome += " reorg"
		}
	} else {
		// corrupted body under the unchanged header
		bad := corruptBlock(b.msg, t.Corrupt)
		ids := make([]bitcoin.Hash32, len(bad.Transactions))
		for i, x := range bad.Transactions {
			ids[i] = *x.TxHash()
		}
		if core.IndependentMerkleRoot(ids) == b.msg.Header.MerkleRoot {
			w.Close()
			res.Outcome = "corruption keeps the root (not asserted)"
			return res
		}
		good := b.msg
		b.msg = bad
		w.Announce(w.P)
		w.settle()
		for i := 0; i < 4; i++ {
			w.answerRound()
			w.pingNode()
			w.Tick(300e6)
		}
		b.msg = good
		w.PanicViolations("C04")
		if h := w.Node.LastHeight(core.Ctx()); h != before {
			w.fail("C04", "bad-merkle-rejected", "chain advanced on a block whose txs do not hash to the header's root ("+corruptKind(t.Corrupt)+")", fmt.Sprintf("height %d -> %d after %s", before, h, t.Corrupt))
		}
		for _, e := range w.H[0].events {
			if (e.Kind == "tx" || e.Kind == "update") && e.State.MerkleProof != nil {
				w.fail("C04", "bad-merkle-nothing-delivered", "confirmation delivered from a bad-merkle block ("+corruptKind(t.Corrupt)+")", fmt.Sprintf("%s %s", e.Kind, w.TxNames[e.TxID]))
				break
			}
			if e.Kind == "headers" && e.Hash == b.hash {
				w.fail("C04", "bad-merkle-nothing-delivered", "header of a bad-merkle block announced ("+corruptKind(t.Corrupt)+")", t.Corrupt)
				break
			}
		}
		res.Outcome = "corrupt " + corruptKind(t.Corrupt)
	}
	for i := range w.viol {
		w.viol[i].Witness = map[string]interface{}{"task": t}
	}
	for _, v := range w.viol {
		if v.Property == "C04" || v.Clause == "panic" {
			v.Property = "C04"
			res.Violations = append(res.Violations, v)
		}
	}
	w.Close()
	return res
}

func corruptKind(c string) string {
	for i := 0; i < len(c); i++ {
		if c[i] == ':' {
			return c[:i]
		}
	}
	return c
}

func corruptBlock(b *wire.MsgBlock, how string) *wire.MsgBlock {
	nb := &wire.MsgBlock{Header: b.Header}
	txs := append([]*wire.MsgTx(nil), b.Transactions...)
	var kind string
	var i, j int
	fmt.Sscanf(how, "drop:%d", &i)
	kind = corruptKind(how)
	switch kind {
	case "drop":
		fmt.Sscanf(how, "drop:%d", &i)
		txs = append(txs[:i], txs[i+1:]...)
	case "insert":
		fmt.Sscanf(how, "insert:%d", &i)
		extra := c04Tx(99, true)
		txs = append(txs[:i], append([]*wire.MsgTx{extra}, txs[i:]...)...)
	case "swap":
		fmt.Sscanf(how, "swap:%d:%d", &i, &j)
		txs[i], txs[j] = txs[j], txs[i]
	case "alter":
		fmt.Sscanf(how, "alter:%d", &i)
		c := txs[i].Copy()
		c.LockTime++
		txs[i] = &c
	}
	for _, t := range txs {
		nb.AddTransaction(t)
	}
	return nb
}

func init() {
	core.RegisterOp("c04", func(arg json.RawMessage) (interface{}, error) {
		var t c04Task
		if err := json.Unmarshal(arg, &t); err != nil {
			return nil, err
		}
		return c04Exec(t), nil
	})
	All["C04"] = runC04
	Replayers["C04"] = func(wit json.RawMessage) []core.Violation {
		var x struct {
			Task c04Task `json:"task"`
		}
		json.Unmarshal(wit, &x)
		return c04Exec(x.Task).Violations
	}
}

func runC04() int {
	rep := core.NewReport("C04", "model_checking")
	pool := core.NewPool()
	maxN, fullN, corrN, reorgN, crashN := 9, 6, 5, 5, 4
	if rep.Thorough() {
		maxN, fullN, corrN, reorgN, crashN = 17, 8, 7, 8, 6
	}
	var tasks []interface{}
	var meta []c04Task
	add := func(t c04Task) { tasks = append(tasks, t); meta = append(meta, t) }
	for n := 1; n <= maxN; n++ {
		var masks []uint32
		if n <= fullN {
			for m := uint32(0); m < 1<<uint(n); m += 2 { // bit 0 (coinbase) never relevant
				masks = append(masks, m)
			}
		} else {
			masks = append(masks, 0)
			for i := 1; i < n; i++ {
				masks = append(masks, 1<<uint(i))
				for j := i + 1; j < n; j++ {
					masks = append(masks, 1<<uint(i)|1<<uint(j))
				}
			}
		}
		for _, m := range masks {
			for _, seen := range []string{"none", "all", "alt"} {
				if m == 0 && seen != "none" {
					continue
				}
				add(c04Task{N: n, RelMask: m, Seen: seen})
				if seen == "none" && (m == 0 || m&(m-1) == 0) {
					add(c04Task{N: n, RelMask: m, Seen: seen, CoinbaseRel: true})
				}
				if seen != "none" && m != 0 && n <= reorgN {
					add(c04Task{N: n, RelMask: m, Seen: seen, Conflict: true})
				}
				if seen == "none" && m&(m-1) != 0 && n <= crashN { // at least two relevant txs
					add(c04Task{N: n, RelMask: m, Crash: -1})
				}
				if m != 0 && n <= reorgN && n >= 3 {
					add(c04Task{N: n, RelMask: m, Seen: seen, Reorg: true})
				}
			}
		}
		if n >= 2 && n <= corrN {
			all := uint32(1<<uint(n)) - 2
			for i := 0; i < n; i++ {
				add(c04Task{N: n, RelMask: all, Corrupt: fmt.Sprintf("drop:%d", i), Direct: true})
				add(c04Task{N: n, RelMask: all, Corrupt: fmt.Sprintf("alter:%d", i), Direct: true})
				add(c04Task{N: n, RelMask: all, Corrupt: fmt.Sprintf("insert:%d", i), Direct: true})
				add(c04Task{N: n, RelMask: all, Corrupt: fmt.Sprintf("drop:%d", i), Syncing: true})
				add(c04Task{N: n, RelMask: all, Corrupt: fmt.Sprintf("alter:%d", i), Syncing: true})
				if i+1 < n {
					add(c04Task{N: n, RelMask: all, Corrupt: fmt.Sprintf("swap:%d:%d", i, i+1), Syncing: true})
				}
				add(c04Task{N: n, RelMask: all, Seen: "none", Corrupt: fmt.Sprintf("drop:%d", i)})
				add(c04Task{N: n, RelMask: all, Seen: "none", Corrupt: fmt.Sprintf("insert:%d", i)})
				add(c04Task{N: n, RelMask: all, Seen: "alt", Corrupt: fmt.Sprintf("alter:%d", i)})
				for j := i + 1; j < n; j++ {
					add(c04Task{N: n, RelMask: all, Seen: "none", Corrupt: fmt.Sprintf("swap:%d:%d", i, j)})
				}
			}
		}
	}
	execs := 0
	pool.Map("c04", tasks, func(i int, r core.TaskResult) {
		if r.Died != "" || r.Err != "" {
			rep.AddViolation(core.Violation{Property: "C04", Clause: "execution-terminates", Class: "execution did not finish", Detail: r.Died + r.Err,
				Witness: map[string]interface{}{"task": meta[i]}})
			return
		}
		var res c04Result
		json.Unmarshal(r.Res, &res)
		execs++
		rep.Outcome(res.Outcome)
		for _, v := range res.Violations {
			rep.AddViolation(v)
		}
		if i%97 == 3 {
			rep.AddSample(meta[i])
		}
	})
	rep.Coverage["states"] = execs
	rep.Coverage["transitions"] = execs
	rep.Coverage["traces_validated_against_impl"] = execs
	rep.Coverage["evaluations"] = execs
	rep.Coverage["distinct_nontrivial"] = len(rep.Outcomes)
	rep.Coverage["rule"] = fmt.Sprintf("bounded-exhaustive enumeration through the real path (in-sync Node.Run, peer announces and serves one block): block sizes 1..%d, every subset of relevant positions for n<=%d and all singletons/pairs above, relevant txs previously delivered (all / none / alternating), the coinbase itself relevant; corrupted bodies (drop i, insert at i, swap i/j, alter i) under an unchanged header for n<=%d, served while in sync, during the initial sync, and handed directly to Node.ProcessBlock of a loaded node, only where the independently computed root differs from the header. For n<=%d (the same bound as the reorganisation variant) the previously seen relevant txs were also flagged unsafe by a double spend attempt before they confirm. For n<=%d with two or more relevant txs the block is part of the initial sync and the process dies after every single storage mutation of that sync, restarts on the surviving storage and syncs again (every notification before and after must carry a proof for the held header). For n<=%d additionally a one-block reorganisation after the block was processed: the winning block holds the same txs rotated plus one more, and the re-confirmation must carry a proof for the winning block. Oracle: at the moment of every notification the node holds the proof's header at that height; independent merkle path verifier against the header at that height, true index, depth 0, new vs update kind; corrupted: height unchanged, nothing delivered.", maxN, fullN, corrN, reorgN, crashN, reorgN)
	rep.Assumptions = append(peerAssumption, "duplicate-tail merkle malleability (corruptions that keep the root) is not asserted")
	return rep.Finish()
}
