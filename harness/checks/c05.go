//go:build verif

package checks

import (
	"encoding/json"
	"fmt"
	"sort"
	"strings"
	"time"

	"github.com/tokenized/pkg/bitcoin"
	"github.com/tokenized/pkg/wire"
	"github.com/tokenized/spynode/internal/state"
	"github.com/tokenized/spynode/internal/verif/core"
	"github.com/tokenized/spynode/pkg/vrt"
)

// C05 (component level): state.MemPool's double-spend index against map[outpoint]set<txid>.

type c05Universe struct {
	txs   map[string]*wire.MsgTx
	ids   map[string]bitcoin.Hash32
	names map[bitcoin.Hash32]string
	order []string
}

func newC05Universe() *c05Universe {
	u := &c05Universe{txs: map[string]*wire.MsgTx{}, ids: map[string]bitcoin.Hash32{}, names: map[bitcoin.Hash32]string{}}
	var fund bitcoin.Hash32
	fund[0] = 0xf0
	op := func(i uint32) wire.OutPoint { return wire.OutPoint{Hash: fund, Index: i} }
	add := func(name string, ins []wire.OutPoint, salt uint32) {
		tx := core.MakeTx(ins, nil, [][]byte{{0x51}}, salt)
		u.txs[name] = tx
		u.ids[name] = *tx.TxHash()
		u.names[u.ids[name]] = name
		u.order = append(u.order, name)
	}
	add("A", []wire.OutPoint{op(1)}, 1)
	add("B", []wire.OutPoint{op(1)}, 2)
	add("C", []wire.OutPoint{op(1), op(2)}, 3)
	add("D", []wire.OutPoint{op(2)}, 4)
	add("E", []wire.OutPoint{op(3)}, 5)
	// child of A (chain, no conflict) and a tx spending the same outpoint twice over two inputs
	add("F", []wire.OutPoint{{Hash: u.ids["A"], Index: 0}}, 6)
	add("G", []wire.OutPoint{op(2), op(3)}, 7)
	return u
}

var c05U = newC05Universe()

type c05RefTx struct {
	body    bool
	trusted bool
}

type c05Ref struct {
	txs      map[string]*c05RefTx
	requests map[string]int64
	now      int64
}

func (r *c05Ref) spenders(op wire.OutPoint, except string) []string {
	var out []string
	for n, t := range r.txs {
		if !t.body || n == except {
			continue
		}
		for _, in := range c05U.txs[n].TxIn {
			if in.PreviousOutPoint.Hash == op.Hash && in.PreviousOutPoint.Index == op.Index {
				out = append(out, n)
				break
			}
		}
	}
	sort.Strings(out)
	return out
}

func (r *c05Ref) conflictsOf(name string) []string {
	set := map[string]bool{}
	for _, in := range c05U.txs[name].TxIn {
		for _, s := range r.spenders(in.PreviousOutPoint, name) {
			set[s] = true
		}
	}
	out := make([]string, 0, len(set))
	for s := range set {
		out = append(out, s)
	}
	sort.Strings(out)
	return out
}

func (r *c05Ref) key() string {
	var parts []string
	for n, t := range r.txs {
		parts = append(parts, fmt.Sprintf("%s:%v:%v", n, t.body, t.trusted))
	}
	for n, t := range r.requests {
		parts = append(parts, fmt.Sprintf("r%s:%d", n, r.now-t))
	}
	sort.Strings(parts)
	return strings.Join(parts, ",")
}

type c05World struct {
	mp  *state.MemPool
	ref c05Ref
}

func newC05World() *c05World {
	vrt.PassNow = 0
	return &c05World{mp: state.NewMemPool(), ref: c05Ref{txs: map[string]*c05RefTx{}, requests: map[string]int64{}}}
}

func (w *c05World) enabled(names []string) []string {
	var ops []string
	for _, n := range names {
		ops = append(ops, "add:"+n+":u", "add:"+n+":t", "rm:"+n, "conf:"+n, "req:"+n+":u", "req:"+n+":t")
	}
	ops = append(ops, "tick")
	return ops
}

func namesOf(hs []bitcoin.Hash32) []string {
	var out []string
	for _, h := range hs {
		if n, ok := c05U.names[h]; ok {
			out = append(out, n)
		} else {
			out = append(out, "?"+h.String()[:8])
		}
	}
	sort.Strings(out)
	return out
}

func (w *c05World) apply(op string) (viol []core.Violation) {
	fail := func(clause, class, detail string) {
		viol = append(viol, core.Violation{Property: "C05", Clause: clause, Class: class, Detail: detail})
	}
	defer func() {
		if pv := recover(); pv != nil {
			fail("panic", strings.Split(op, ":")[0], fmt.Sprintf("%s panicked: %v", op, pv))
		}
	}()
	ctx := core.Ctx()
	p := strings.Split(op, ":")
	r := &w.ref
	switch p[0] {
	case "tick":
		vrt.PassNow += int64(3100 * time.Millisecond)
		r.now = vrt.PassNow
	case "add":
		n := p[1]
		trusted := p[2] == "t"
		conf, _, added := w.mp.AddTransaction(ctx, c05U.txs[n], trusted)
		rt := r.txs[n]
		wantAdded := rt == nil || !rt.body
		var want []string
		if wantAdded {
			want = r.conflictsOf(n)
			if rt == nil {
				rt = &c05RefTx{}
				r.txs[n] = rt
			}
			rt.body = true
		}
		if trusted {
			rt.trusted = true
		}
		delete(r.requests, n)
		if added != wantAdded {
			fail("add-added-flag", fmt.Sprintf("added=%v want %v", added, wantAdded), fmt.Sprintf("AddTransaction(%s) added=%v, reference %v", n, added, wantAdded))
		}
		got := namesOf(conf)
		if strings.Join(got, ",") != strings.Join(want, ",") {
			cls := "missing conflicts"
			if len(got) > len(want) {
				cls = "spurious conflicts"
			} else if len(got) == len(want) {
				cls = "wrong conflicts"
			}
			fail("add-conflicts", cls, fmt.Sprintf("AddTransaction(%s) reported conflicts %v, pool txs sharing an outpoint: %v", n, got, want))
		}
	case "rm":
		n := p[1]
		got := w.mp.RemoveTransaction(c05U.ids[n])
		rt := r.txs[n]
		want := rt != nil && rt.body
		delete(r.txs, n)
		delete(r.requests, n)
		if got != want {
			fail("remove-result", fmt.Sprintf("removed=%v want %v", got, want), fmt.Sprintf("RemoveTransaction(%s)=%v reference %v", n, got, want))
		}
	case "conf":
		n := p[1]
		if rt := r.txs[n]; rt != nil && rt.body {
			return nil // the node only asks for txs that are not in the pool
		}
		got := namesOf(w.mp.Conflicting(c05U.txs[n]))
		want := r.conflictsOf(n)
		for _, c := range want {
			delete(r.txs, c)
			delete(r.requests, c)
		}
		if strings.Join(uniq(got), ",") != strings.Join(want, ",") {
			cls := "missing conflicts"
			if len(uniq(got)) > len(want) {
				cls = "spurious conflicts"
			}
			fail("conflicting-query", cls, fmt.Sprintf("Conflicting(%s)=%v, pool txs sharing an outpoint: %v", n, got, want))
		}
	case "req":
		n := p[1]
		trusted := p[2] == "t"
		have, request := w.mp.AddRequest(ctx, c05U.ids[n], trusted)
		rt := r.txs[n]
		wantHave, wantReq := false, false
		if rt != nil && rt.body {
			wantHave = true
			if trusted {
				rt.trusted = true
			}
		} else {
			if rt == nil {
				rt = &c05RefTx{trusted: trusted}
				r.txs[n] = rt
			} else if trusted {
				rt.trusted = true
			}
			t, ok := r.requests[n]
			if !ok || r.now-t > int64(3*time.Second) {
				r.requests[n] = r.now
				wantReq = true
			}
		}
		if have != wantHave || request != wantReq {
			fail("request-decision", fmt.Sprintf("have=%v request=%v want %v %v", have, request, wantHave, wantReq),
				fmt.Sprintf("AddRequest(%s) = (have %v, request %v), reference (%v, %v)", n, have, request, wantHave, wantReq))
		}
	}
	// queries
	for _, n := range c05U.order {
		rt := r.txs[n]
		id := c05U.ids[n]
		if got, want := w.mp.TransactionExists(&id), rt != nil && rt.body; got != want {
			fail("exists", "after "+p[0], fmt.Sprintf("after %s: TransactionExists(%s)=%v want %v", op, n, got, want))
		}
		if got, want := w.mp.IsTrusted(ctx, id), rt != nil && rt.trusted; got != want {
			fail("trusted-mark", "after "+p[0], fmt.Sprintf("after %s: IsTrusted(%s)=%v want %v", op, n, got, want))
		}
	}
	// index contents (private field, secondary)
	if f, ok := core.Field(w.mp, "inputs"); ok && f.Kind().String() == "map" {
		got := map[string][]string{}
		it := f.MapRange()
		for it.Next() {
			k, v := it.Key(), it.Value()
			var kh bitcoin.Hash32
			for i := 0; i < 32 && i < k.Len(); i++ {
				kh[i] = byte(k.Index(i).Uint())
			}
			var hs []bitcoin.Hash32
			for i := 0; i < v.Len(); i++ {
				var h bitcoin.Hash32
				e := v.Index(i)
				for j := 0; j < 32 && j < e.Len(); j++ {
					h[j] = byte(e.Index(j).Uint())
				}
				hs = append(hs, h)
			}
			got[kh.String()] = namesOf(hs)
		}
		want := map[string][]string{}
		for n, t := range r.txs {
			if !t.body {
				continue
			}
			for _, in := range c05U.txs[n].TxIn {
				k := in.PreviousOutPoint.OutpointHash().String()
				want[k] = append(want[k], n)
			}
		}
		for k := range want {
			sort.Strings(want[k])
		}
		if fmt.Sprint(got) != fmt.Sprint(want) {
			fail("outpoint-index", "after "+p[0], fmt.Sprintf("after %s: index=%v reference=%v", op, got, want))
		}
	}
	return viol
}

func uniq(a []string) []string {
	var out []string
	for i, s := range a {
		if i == 0 || s != a[i-1] {
			out = append(out, s)
		}
	}
	return out
}

func (w *c05World) key() string {
	d := core.NewDumper(time.Unix(vrt.BaseUnix, 0).Add(time.Duration(vrt.PassNow)))
	d.Caps = true // two pools with equal lists but different spare capacity are different states (slice aliasing)
	d.Add("mp", w.mp)
	return core.HashStr(d.String() + "##" + w.ref.key())
}

func c05Replay(hist []string) (*c05World, []core.Violation) {
	w := newC05World()
	for _, op := range hist {
		if v := w.apply(op); len(v) > 0 {
			return w, v
		}
	}
	return w, nil
}

type c05Params struct {
	Names []string `json:"names"`
}

func init() {
	core.RegisterExpander("c05", func(params json.RawMessage, hist []string) []core.Succ {
		var pr c05Params
		json.Unmarshal(params, &pr)
		w, v := c05Replay(hist)
		if len(v) > 0 {
			return nil
		}
		var out []core.Succ
		for _, op := range w.enabled(pr.Names) {
			w2, _ := c05Replay(hist)
			viol := w2.apply(op)
			s := core.Succ{Event: op}
			if len(viol) > 0 {
				full := append(append([]string(nil), hist...), op)
				for i := range viol {
					viol[i].Witness = map[string]interface{}{"ops": full}
				}
				s.Violations, s.Terminal = viol, true
			} else {
				s.Key = w2.key()
				n := 0
				for _, t := range w2.ref.txs {
					if t.body {
						n++
					}
				}
				s.Outcome = fmt.Sprintf("pool=%d", n)
			}
			out = append(out, s)
		}
		return out
	})
	Replayers["C05"] = func(wit json.RawMessage) []core.Violation {
		var x struct {
			Ops []string `json:"ops"`
		}
		json.Unmarshal(wit, &x)
		if len(x.Ops) == 0 {
			return nil
		}
		_, v := c05Replay(x.Ops)
		return v
	}
	All["C05"] = runC05
}

func c05Component(rep *core.Report, pool *core.Pool, names []string, depth, maxStates int, deadline time.Time) core.BFSStats {
	w := newC05World()
	return core.BFS(pool, rep, core.BFSOpts{Op: "c05", Params: c05Params{names}, MaxDepth: depth,
		MaxStates: maxStates, Deadline: deadline, InitKey: w.key(), Batch: 64})
}

func runC05() int {
	rep := core.NewReport("C05", "model_checking")
	pool := core.NewPool()
	names, depth, maxStates, budget := []string{"A", "B", "C", "D", "E"}, 5, 400000, 90*time.Second
	if rep.Thorough() {
		names, depth, maxStates, budget = c05U.order, 7, 4000000, 15*time.Minute
	}
	c05Component(rep, pool, names, depth, maxStates, time.Now().Add(budget))
	compStates, _ := rep.Coverage["states"].(int)
	rep.Coverage["component_states"] = compStates
	rep.Coverage["component_depth"] = rep.Coverage["depth_completed"]
	// the persisted unsafe flag (conflict seen) must survive save + load, otherwise a flagged tx is
	// reported safe after a restart: differential of the unconfirmed set before/after reload
	sub := core.NewReport("C05", "model_checking")
	c11Component(sub, 2)
	for _, v := range sub.Violations {
		if strings.Contains(v.Class, "unsafe") || v.Clause == "behaviour-survives-restart" {
			v.Property = "C05"
			v.Clause = "unsafe-flag-persisted"
			rep.AddViolation(v)
		}
	}
	rep.Coverage["unsafe_flag_persistence_cases"] = sub.Coverage["component_cases"]
	histCheckInto(rep, histCheck{prop: "C05", scenarios: c05NodeScenarios(), depthQ: 4, depthT: 6, statesQ: 250000, statesT: 4000000,
		budgetQ: 120 * time.Second, budgetT: 15 * time.Minute, assume: peerAssumption,
		// "neither is subsequently reported safe" is the same observation as C07's clause
		accept: func(v core.Violation) bool { return v.Clause == "no-safe-after-unsafe" },
		rule: "(1) component: explicit-state BFS over {add tx (trusted/untrusted), remove, conflicting-query, add-request, tick 3.1s} on the real MemPool with txs A,B (same outpoint), C (two outpoints, overlapping A/B and D), D, E (independent), F (child of A), G; conflict sets, flags and the outpoint index compared with map[outpoint]set<txid> after every step. (2) node: explicit-state BFS over arrival orders and sources of R1, D1 (relevant double spend), D2 (irrelevant double spend), R3, M1 (spends the outpoints of I1 and R3), I1, confirmations that evict some of them, clock and restart on the real Node.Run; every relevant member of a conflicting pair must be reported unsafe and never safe afterwards, txs sharing no outpoint are never flagged"})
	return rep.Finish()
}
