//go:build verif

package checks

import (
	"bytes"
	"crypto/sha256"
	"encoding/binary"
	"encoding/json"
	"fmt"
	"sort"
	"strings"

	"github.com/tokenized/pkg/bitcoin"
	"github.com/tokenized/pkg/wire"
	"github.com/tokenized/specification/dist/golang/actions"
	"github.com/tokenized/specification/dist/golang/protocol"
	"github.com/tokenized/spynode/internal/platform/config"
	"github.com/tokenized/spynode/internal/spynode"
	"github.com/tokenized/spynode/internal/verif/core"
	"golang.org/x/crypto/ripemd160"
)

// C08: Node.IsRelevant and the subscription methods against an independent script tokenizer and
// a multiset of subscribed hashes; bounded-exhaustive over token sequences, truncations,
// placements and subscribe/unsubscribe histories (DESIGN §4 C08).

func refHash160(b []byte) [20]byte {
	s := sha256.Sum256(b)
	r := ripemd160.New()
	r.Write(s[:])
	var out [20]byte
	copy(out[:], r.Sum(nil))
	return out
}

// refPushes: complete data pushes before the first malformation (independent tokenizer).
func refPushes(script []byte) [][]byte {
	var out [][]byte
	i := 0
	for i < len(script) {
		op := script[i]
		i++
		n := -1
		switch {
		case op == 0x00:
			out = append(out, nil)
			continue
		case op >= 1 && op <= 75:
			n = int(op)
		case op == 0x4c:
			if i+1 > len(script) {
				return out
			}
			n = int(script[i])
			i++
		case op == 0x4d:
			if i+2 > len(script) {
				return out
			}
			n = int(binary.LittleEndian.Uint16(script[i:]))
			i += 2
		case op == 0x4e:
			if i+4 > len(script) {
				return out
			}
			n = int(binary.LittleEndian.Uint32(script[i:]))
			i += 4
		case op >= 0x51 && op <= 0x60:
			out = append(out, []byte{op - 0x50})
			continue
		case op == 0x4f:
			out = append(out, []byte{0xff})
			continue
		default:
			continue // non-push opcode: skipped
		}
		if n < 0 || i+n > len(script) {
			return out // push runs past the end: malformed, stop here
		}
		out = append(out, script[i:i+n])
		i += n
	}
	return out
}

type c08Universe struct {
	raw, other, short []byte
	rawHash, otherHash, shortHash, direct, unsub [20]byte
}

func newC08Universe() *c08Universe {
	u := &c08Universe{}
	u.raw = bytes.Repeat([]byte{0x5a}, 33)  // raw data subscribed via its hash
	u.short = []byte{1, 2, 3, 4, 5, 6}       // short raw data
	u.other = bytes.Repeat([]byte{0x77}, 21) // never subscribed
	u.rawHash, u.shortHash, u.otherHash = refHash160(u.raw), refHash160(u.short), refHash160(u.other)
	u.direct = core.Hash20Of("c08-direct")
	u.unsub = core.Hash20Of("c08-unsubscribed")
	return u
}

var c08U = newC08Universe()

type c08Token struct {
	name  string
	bytes []byte
}

func c08Tokens() []c08Token {
	u := c08U
	push := func(op []byte, data []byte) []byte { return append(append([]byte{}, op...), data...) }
	le16 := func(n int) []byte { b := make([]byte, 2); binary.LittleEndian.PutUint16(b, uint16(n)); return b }
	le32 := func(n int) []byte { b := make([]byte, 4); binary.LittleEndian.PutUint32(b, uint32(n)); return b }
	pad := func(n int, v byte) []byte { return bytes.Repeat([]byte{v}, n) }
	return []c08Token{
		{"OP_0", []byte{0x00}},
		{"push1", push([]byte{1}, []byte{0x09})},
		{"push6:short", push([]byte{6}, u.short)},
		{"push19", push([]byte{19}, pad(19, 0x13))},
		{"push20:direct", push([]byte{20}, u.direct[:])},
		{"push20:hash(raw)", push([]byte{20}, u.rawHash[:])},
		{"push20:unsub", push([]byte{20}, u.unsub[:])},
		{"push21:other", push([]byte{21}, u.other)},
		{"push33:raw", push([]byte{33}, u.raw)},
		{"push75", push([]byte{75}, pad(75, 0x4b))},
		{"pd1:0", []byte{0x4c, 0}},
		{"pd1:20:direct", push([]byte{0x4c, 20}, u.direct[:])},
		{"pd1:33:raw", push([]byte{0x4c, 33}, u.raw)},
		{"pd1:76", push([]byte{0x4c, 76}, pad(76, 0x4c))},
		{"pd1:255", push([]byte{0x4c, 255}, pad(255, 0xfe))},
		{"pd2:20:direct", push(append([]byte{0x4d}, le16(20)...), u.direct[:])},
		{"pd2:256", push(append([]byte{0x4d}, le16(256)...), pad(256, 0x01))},
		{"pd4:20:hash(raw)", push(append([]byte{0x4e}, le32(20)...), u.rawHash[:])},
		{"pd4:huge", append([]byte{0x4e}, 0xff, 0xff, 0xff, 0xff)},
		{"OP_DUP", []byte{0x76}},
		{"OP_RETURN", []byte{0x6a}},
		{"OP_CHECKSIG", []byte{0xac}},
		{"0xff", []byte{0xff}},
		{"OP_1", []byte{0x51}},
		{"OP_16", []byte{0x60}},
		{"OP_1NEGATE", []byte{0x4f}},
	}
}

type c08Sub struct {
	counts map[[20]byte]int
}

func (s *c08Sub) hashOf(pd []byte) [20]byte {
	var h [20]byte
	if len(pd) == 20 {
		copy(h[:], pd)
		return h
	}
	return refHash160(pd)
}

// refRelevant: some complete push equals a subscribed value (20-byte pushes compared directly,
// everything else through hash160).
func (s *c08Sub) refRelevant(scripts [][]byte) bool {
	for _, sc := range scripts {
		for _, p := range refPushes(sc) {
			var h [20]byte
			if len(p) == 20 {
				copy(h[:], p)
			} else {
				h = refHash160(p)
			}
			if s.counts[h] > 0 {
				return true
			}
		}
	}
	return false
}

type c08Result struct {
	Evals      int              `json:"evals"`
	Distinct   int              `json:"distinct"`
	Violations []core.Violation `json:"violations"`
	Sample     interface{}      `json:"sample"`
}

type c08Task struct {
	First int `json:"first"` // index of the first token (work split)
	Depth int `json:"depth"`
	Mode  string `json:"mode"` // scripts | subs | contracts
}

func c08NewNode() *spynode.Node {
	return spynode.NewNode(config.Config{Net: bitcoin.MainNet, IsTest: true}, core.NewRecStore(true), nil, nil)
}

func placeScript(script []byte, where int) *wire.MsgTx {
	tx := wire.NewMsgTx(1)
	benign := []byte{0x76, 0xa9, 0x14, 9, 9, 9, 9, 9, 9, 9, 9, 9, 9, 9, 9, 9, 9, 9, 9, 9, 9, 9, 9, 0x88, 0xac}
	ins := [][]byte{{0x01, 0x30}, {0x01, 0x31}}
	outs := [][]byte{benign, benign}
	switch where {
	case 0:
		outs[0] = script
	case 1:
		outs[1] = script
	case 2:
		ins[0] = script
	case 3:
		ins[1] = script
	}
	for i, us := range ins {
		op := wire.OutPoint{Hash: bitcoin.Hash32{0xc8, byte(i)}, Index: uint32(i)}
		tx.AddTxIn(wire.NewTxIn(&op, us))
	}
	for _, ls := range outs {
		tx.AddTxOut(wire.NewTxOut(10, ls))
	}
	return tx
}

func c08Scripts(t c08Task) c08Result {
	var res c08Result
	ctx := core.Ctx()
	toks := c08Tokens()
	node := c08NewNode()
	sub := &c08Sub{counts: map[[20]byte]int{}}
	// subscriptions: one 20-byte value, raw data (hashed by the node), short raw data as its hash
	node.SubscribePushDatas(ctx, [][]byte{c08U.direct[:], c08U.raw, c08U.shortHash[:]})
	sub.counts[c08U.direct]++
	sub.counts[c08U.rawHash]++
	sub.counts[c08U.shortHash]++
	seen := map[string]bool{}
	viol := map[string]bool{}
	check := func(names []string, script []byte) {
		for cut := len(script); cut >= 0; cut-- {
			sc := script[:cut]
			k := string(sc)
			if seen[k] {
				continue
			}
			seen[k] = true
			want := sub.refRelevant([][]byte{sc})
			for where := 0; where < 4; where++ {
				res.Evals++
				tx := placeScript(sc, where)
				var got bool
				pv := guard(func() { got = node.IsRelevant(ctx, tx) })
				cls := ""
				switch {
				case pv != nil:
					cls = "filter panics"
				case got && !want:
					cls = "false positive"
				case !got && want:
					cls = "false negative"
				}
				if cls == "" {
					continue
				}
				pos := []string{"output 0", "output 1", "input 0", "input 1"}[where]
				trunc := ""
				if cut < len(script) {
					trunc = ", truncated"
				}
				class := fmt.Sprintf("%s (%s%s)", cls, strings.SplitN(pos, " ", 2)[0], trunc)
				if !viol[class] {
					viol[class] = true
					res.Violations = append(res.Violations, core.Violation{Property: "C08", Clause: "filter-exact", Class: class,
						Detail:  fmt.Sprintf("script %x (tokens %v cut at %d of %d) in %s: IsRelevant=%v want %v (panic: %v)", sc, names, cut, len(script), pos, got, want, pv),
						Witness: map[string]interface{}{"script": fmt.Sprintf("%x", sc), "where": where}})
				}
			}
		}
	}
	var rec func(names []string, script []byte, depth int)
	rec = func(names []string, script []byte, depth int) {
		check(names, script)
		if depth >= t.Depth {
			return
		}
		for _, tk := range toks {
			rec(append(append([]string{}, names...), tk.name), append(append([]byte{}, script...), tk.bytes...), depth+1)
		}
	}
	tk := toks[t.First]
	rec([]string{tk.name}, tk.bytes, 1)
	res.Distinct = len(seen)
	res.Sample = map[string]interface{}{"first_token": tk.name, "depth": t.Depth, "distinct_scripts_incl_truncations": len(seen)}
	return res
}

// c08Subs: all subscribe/unsubscribe sequences over a small universe vs a multiset.
func c08Subs(depth int) c08Result {
	var res c08Result
	ctx := core.Ctx()
	u := c08U
	items := map[string][]byte{"raw": u.raw, "hash(raw)": u.rawHash[:], "direct": u.direct[:], "short": u.short, "hash(short)": u.shortHash[:]}
	var names []string
	for n := range items {
		names = append(names, n)
	}
	sort.Strings(names)
	var ops []string
	for _, n := range names {
		ops = append(ops, "sub:"+n, "unsub:"+n)
	}
	// batches: several entries in one call (two or three of them matching, the same value twice as data and as hash)
	ops = append(ops, "sub:direct+raw+short", "unsub:direct+raw", "unsub:direct+short", "unsub:raw+short", "unsub:direct+raw+short", "unsub:raw+hash(raw)")
	probes := map[string][]byte{
		"push 20 zero bytes": append([]byte{20}, make([]byte, 20)...),
		"push raw":        append([]byte{33}, u.raw...),
		"push hash(raw)":  append([]byte{20}, u.rawHash[:]...),
		"push direct":     append([]byte{20}, u.direct[:]...),
		"push short":      append([]byte{6}, u.short...),
		"push hash(short)": append([]byte{20}, u.shortHash[:]...),
	}
	viol := map[string]bool{}
	// the same tx objects are asked about again and again while the filter changes (a node sees a tx
	// unconfirmed and again in its block, with subscriptions changing in between)
	probeTx := map[string]*wire.MsgTx{}
	for pn, sc := range probes {
		probeTx[pn] = placeScript(sc, 0)
	}
	var rec func(seq []string)
	rec = func(seq []string) {
		node := c08NewNode()
		sub := &c08Sub{counts: map[[20]byte]int{}}
		for oi, op := range seq {
			if oi == len(seq)-1 {
				// ask about every probe just before the last operation, so that the final answers below are
				// second answers for the same objects after a filter change
				for _, pn := range []string{"push direct", "push raw", "push short"} {
					node.IsRelevant(ctx, probeTx[pn])
					res.Evals++
					if got, want := node.IsRelevant(ctx, probeTx[pn]), sub.refRelevant([][]byte{probes[pn]}); got != want {
						class := fmt.Sprintf("before last op: got %v want %v", got, want)
						if !viol[class] {
							viol[class] = true
							res.Violations = append(res.Violations, core.Violation{Property: "C08", Clause: "subscription-multiset", Class: class,
								Detail: fmt.Sprintf("after %v a tx with %s is relevant=%v, reference multiset says %v", seq[:oi], pn, got, want), Witness: map[string]interface{}{"subs": seq[:oi]}})
						}
					}
				}
			}
			p := strings.SplitN(op, ":", 2)
			var batch [][]byte
			for _, n := range strings.Split(p[1], "+") {
				batch = append(batch, items[n])
				h := sub.hashOf(items[n])
				if p[0] == "sub" {
					sub.counts[h]++
				} else if sub.counts[h] > 0 {
					sub.counts[h]--
				}
			}
			if p[0] == "sub" {
				node.SubscribePushDatas(ctx, batch)
			} else {
				node.UnsubscribePushDatas(ctx, batch)
			}
		}
		for pn, sc := range probes {
			res.Evals++
			want := sub.refRelevant([][]byte{sc})
			got := node.IsRelevant(ctx, probeTx[pn])
			if got != want {
				last := "none"
				if len(seq) > 0 {
					last = strings.SplitN(seq[len(seq)-1], ":", 2)[0]
				}
				class := fmt.Sprintf("after %s: got %v want %v", last, got, want)
				if !viol[class] {
					viol[class] = true
					res.Violations = append(res.Violations, core.Violation{Property: "C08", Clause: "subscription-multiset", Class: class,
						Detail: fmt.Sprintf("after %v a tx with %s is relevant=%v, reference multiset says %v", seq, pn, got, want), Witness: map[string]interface{}{"subs": seq}})
				}
			}
		}
		res.Distinct++
		if len(seq) >= depth {
			return
		}
		for _, op := range ops {
			rec(append(append([]string{}, seq...), op))
		}
	}
	rec(nil)
	res.Sample = map[string]interface{}{"subscription_sequences": res.Distinct, "depth": depth}
	return res
}

// c08Contracts: contract flag x action kinds.
func c08Contracts() c08Result {
	var res c08Result
	ctx := core.Ctx()
	mk := func(a actions.Action) []byte {
		s, err := protocol.Serialize(a, true)
		if err != nil {
			panic(err)
		}
		return s
	}
	scripts := map[string][]byte{
		"ContractFormation":  mk(&actions.ContractFormation{ContractName: "c"}),
		"InstrumentCreation": mk(&actions.InstrumentCreation{InstrumentType: "COU"}),
		"Transfer":           mk(&actions.Transfer{}),
		"ContractOffer":      mk(&actions.ContractOffer{ContractName: "c"}),
		"non-protocol":       {0x6a, 0x04, 't', 'e', 's', 't'},
		"truncated-formation": mk(&actions.ContractFormation{ContractName: "c"})[:6],
	}
	wantRel := map[string]bool{"ContractFormation": true, "InstrumentCreation": true}
	for name, sc := range scripts {
		for _, flag := range []string{"off", "on", "on-then-off"} {
			for where := 0; where < 4; where++ {
				node := c08NewNode()
				if flag != "off" {
					node.SubscribeContracts(ctx)
				}
				if flag == "on-then-off" {
					node.UnsubscribeContracts(ctx)
				}
				res.Evals++
				res.Distinct++
				want := flag == "on" && wantRel[name] && where < 2 // actions live in output scripts
				var got bool
				pv := guard(func() { got = node.IsRelevant(ctx, placeScript(sc, where)) })
				if pv != nil || got != want {
					res.Violations = append(res.Violations, core.Violation{Property: "C08", Clause: "contract-actions", Class: fmt.Sprintf("%s flag %s: got %v want %v", name, flag, got, want),
						Detail: fmt.Sprintf("%s in position %d with contract subscription %s: relevant=%v want %v panic=%v", name, where, flag, got, want, pv), Witness: map[string]interface{}{"action": name, "flag": flag, "where": where}})
				}
			}
		}
	}
	// two Tokenized (or other) outputs in one tx, contract subscription on: relevant iff one of them is contract wide
	var names []string
	for n := range scripts {
		names = append(names, n)
	}
	sort.Strings(names)
	for _, a := range names {
		for _, b := range names {
			node := c08NewNode()
			node.SubscribeContracts(ctx)
			tx := placeScript(scripts[a], 0)
			tx.TxOut[1].LockingScript = scripts[b]
			res.Evals++
			res.Distinct++
			want := wantRel[a] || wantRel[b]
			var got bool
			pv := guard(func() { got = node.IsRelevant(ctx, tx) })
			if pv != nil || got != want {
				res.Violations = append(res.Violations, core.Violation{Property: "C08", Clause: "contract-actions", Class: fmt.Sprintf("two action outputs: got %v want %v", got, want),
					Detail: fmt.Sprintf("outputs [%s, %s] with contract subscription on: relevant=%v want %v panic=%v", a, b, got, want, pv), Witness: map[string]interface{}{"actions": []string{a, b}}})
			}
		}
	}
	res.Sample = map[string]interface{}{"actions": len(scripts)}
	return res
}

// c08Pairs: two scripts of interest in two different positions of one tx (the scan of one script must
// not influence the scan of another): every ordered pair over a set of matching, non-matching and
// malformed scripts x every pair of positions.
func c08Pairs() c08Result {
	var res c08Result
	ctx := core.Ctx()
	node := c08NewNode()
	sub := &c08Sub{counts: map[[20]byte]int{}}
	node.SubscribePushDatas(ctx, [][]byte{c08U.direct[:], c08U.raw})
	sub.counts[c08U.direct]++
	sub.counts[c08U.rawHash]++
	set := map[string][]byte{
		"match direct":        append([]byte{20}, c08U.direct[:]...),
		"match raw (hashed)":  append([]byte{byte(len(c08U.raw))}, c08U.raw...),
		"p2pkh match":         append(append([]byte{0x76, 0xa9, 20}, c08U.direct[:]...), 0x88, 0xac),
		"benign p2pkh":        {0x76, 0xa9, 0x14, 9, 9, 9, 9, 9, 9, 9, 9, 9, 9, 9, 9, 9, 9, 9, 9, 9, 9, 9, 9, 0x88, 0xac},
		"empty":               {},
		"op_return data":      {0x6a, 0x04, 't', 'e', 's', 't'},
		"push past the end":   {0x6a, 0x4b, 1, 2, 3},
		"half pushdata1":      {0x4c},
		"half pushdata2 len":  {0x4d, 0x05},
		"pushdata2 short":     {0x4d, 0x05, 0x00, 1, 2},
		"pushdata4 huge":      {0x4e, 0xff, 0xff, 0xff, 0xff, 1},
		"invalid opcode":      {0xff, 0xfe},
		"match then garbage":  append(append([]byte{20}, c08U.direct[:]...), 0x4d, 0x05),
		"garbage then match":  append([]byte{0x4d, 0x05}, append([]byte{20}, c08U.direct[:]...)...),
	}
	var names []string
	for n := range set {
		names = append(names, n)
	}
	sort.Strings(names)
	viol := map[string]bool{}
	pos := []string{"output 0", "output 1", "input 0", "input 1"}
	for _, a := range names {
		for _, b := range names {
			for p1 := 0; p1 < 4; p1++ {
				for p2 := 0; p2 < 4; p2++ {
					if p1 == p2 {
						continue
					}
					tx := placeScript(set[a], p1)
					if p2 < 2 {
						tx.TxOut[p2].LockingScript = set[b]
					} else {
						tx.TxIn[p2-2].UnlockingScript = set[b]
					}
					res.Evals++
					res.Distinct++
					want := sub.refRelevant([][]byte{set[a]}) || sub.refRelevant([][]byte{set[b]})
					var got bool
					pv := guard(func() { got = node.IsRelevant(ctx, tx) })
					cls := ""
					switch {
					case pv != nil:
						cls = "filter panics"
					case got && !want:
						cls = "false positive"
					case !got && want:
						cls = "false negative"
					}
					if cls == "" {
						continue
					}
					class := cls + " with two scripts of interest in one tx"
					if !viol[class] {
						viol[class] = true
						res.Violations = append(res.Violations, core.Violation{Property: "C08", Clause: "filter-exact", Class: class,
							Detail:  fmt.Sprintf("%q in %s and %q in %s: IsRelevant=%v want %v (panic: %v)", a, pos[p1], b, pos[p2], got, want, pv),
							Witness: map[string]interface{}{"a": a, "b": b, "p1": p1, "p2": p2}})
					}
				}
			}
		}
	}
	res.Sample = map[string]interface{}{"script_pairs": len(names) * len(names) * 12}
	return res
}

func init() {
	core.RegisterOp("c08", func(arg json.RawMessage) (interface{}, error) {
		var t c08Task
		if err := json.Unmarshal(arg, &t); err != nil {
			return nil, err
		}
		switch t.Mode {
		case "subs":
			return c08Subs(t.Depth), nil
		case "contracts":
			return c08Contracts(), nil
		case "pairs":
			return c08Pairs(), nil
		}
		return c08Scripts(t), nil
	})
	All["C08"] = runC08
}

func runC08() int {
	rep := core.NewReport("C08", "model_checking")
	pool := core.NewPool()
	depth, subDepth := 3, 4
	if rep.Thorough() {
		depth, subDepth = 4, 5
	}
	var tasks []interface{}
	for i := range c08Tokens() {
		tasks = append(tasks, c08Task{First: i, Depth: depth, Mode: "scripts"})
	}
	tasks = append(tasks, c08Task{Depth: subDepth, Mode: "subs"}, c08Task{Mode: "contracts"}, c08Task{Mode: "pairs"})
	evals, distinct := 0, 0
	pool.Map("c08", tasks, func(i int, r core.TaskResult) {
		if r.Died != "" || r.Err != "" {
			rep.AddViolation(core.Violation{Property: "C08", Clause: "filter-terminates", Class: "worker died while filtering", Detail: r.Died + r.Err, Witness: tasks[i]})
			return
		}
		var res c08Result
		json.Unmarshal(r.Res, &res)
		evals += res.Evals
		distinct += res.Distinct
		for _, v := range res.Violations {
			rep.AddViolation(v)
		}
		rep.AddSample(res.Sample)
		rep.Outcome(fmt.Sprint(res.Sample))
	})
	rep.Coverage["evaluations"] = evals
	rep.Coverage["distinct_nontrivial"] = distinct
	rep.Coverage["states"] = distinct
	rep.Coverage["transitions"] = evals
	rep.Coverage["traces_validated_against_impl"] = evals
	rep.Coverage["rule"] = fmt.Sprintf("bounded-exhaustive: every sequence of <= %d script tokens from a 26-token alphabet (direct pushes of length 0/1/6/19/20/21/33/75, PUSHDATA1 0/20/33/76/255, PUSHDATA2 20/256, PUSHDATA4 20 and 2^32-1, OP_DUP, OP_RETURN, OP_CHECKSIG, 0xff, OP_1, OP_16, OP_1NEGATE; payloads: subscribed 20-byte value, raw data subscribed via hash, its hash, unsubscribed values) plus EVERY byte prefix of each script, placed in output 0/1 and input 0/1, on the real Node.IsRelevant vs an independent tokenizer; every subscribe/unsubscribe sequence <= %d over {raw, its hash, direct, short raw, its hash} - single entries and batches of two or three entries per call - vs a multiset; contract flag x {ContractFormation, InstrumentCreation, Transfer, ContractOffer, non-protocol, truncated} alone and in every ordered pair of outputs; every ordered pair of 14 scripts of interest (matching, benign, six malformed shapes, match before/after garbage) in every pair of positions. distinct = distinct scripts / subscription sequences", depth, subDepth)
	rep.Assumptions = []string{"OP_1..OP_16/OP_1NEGATE are treated as one-byte pushes by both sides (no subscription matches them in the universe)"}
	return rep.Finish()
}
