//go:build verif

package checks

import (
	"encoding/json"
	"fmt"
	"strconv"
	"strings"

	"github.com/tokenized/pkg/bitcoin"
	"github.com/tokenized/pkg/wire"
	"github.com/tokenized/spynode/internal/platform/config"
	"github.com/tokenized/spynode/internal/spynode"
	"github.com/tokenized/spynode/internal/storage"
	"github.com/tokenized/spynode/internal/verif/core"
)

// C09: BlockRepository (and the node's header queries) against a slice of headers, for every
// sequence of macro operations over boundary heights. Mode: enum (DESIGN §4 C09).

var (
	c09BoundsQuick = []int{0, 1, 2, 998, 999, 1000, 1001, 1999, 2000, 2001}
	c09BoundsFull  = []int{0, 1, 2, 998, 999, 1000, 1001, 1998, 1999, 2000, 2001, 2999, 3000, 3001}
	c09BoundsDeep  = []int{0, 1, 999, 1000, 1001, 2000, 2001}
)

type c09Task struct {
	RemoveMissingErr bool     `json:"remove_missing_err"`
	Prefix           []string `json:"prefix"`
	Depth            int      `json:"depth"` // total sequence length to explore below the prefix
	Bounds           []int    `json:"bounds"`
}

type c09Result struct {
	Sequences  int              `json:"sequences"`
	Queries    int              `json:"queries"`
	Outcomes   []string         `json:"outcomes"`
	Violations []core.Violation `json:"violations"`
	Sample     interface{}      `json:"sample"`
}

type c09World struct {
	store   *core.RecStore
	repo    *storage.BlockRepository
	ref     []wire.BlockHeader
	gone    []bitcoin.Hash32 // hashes removed by reverts
	salt    uint32
	saved   string // "never" | "stale" | "current": state of the newest file on storage
	cfg     config.Config
	queries int
	ops     []string
	viol    []core.Violation
	mode    bool
	bounds  []int
}

var c09HeaderMemo = map[string]wire.BlockHeader{}

func c09Header(prev bitcoin.Hash32, height int, salt uint32) wire.BlockHeader {
	var m bitcoin.Hash32
	m[0], m[1], m[2] = byte(height), byte(height>>8), byte(salt)
	return core.MakeHeader(prev, height, salt, m)
}

func newC09World(removeMissingErr bool, bounds []int) (*c09World, error) {
	w := &c09World{store: core.NewRecStore(removeMissingErr), saved: "never", mode: removeMissingErr, bounds: bounds}
	w.store.Record = false
	w.cfg = config.Config{Net: bitcoin.MainNet}
	w.repo = storage.NewBlockRepository(w.cfg, w.store)
	if err := w.repo.Load(core.Ctx()); err != nil {
		return nil, err
	}
	w.ref = []wire.BlockHeader{core.GenesisHeader()}
	return w, nil
}

func (w *c09World) tip() int { return len(w.ref) - 1 }

func (w *c09World) fail(clause, class, detail string) {
	w.viol = append(w.viol, core.Violation{Property: "C09", Clause: clause, Class: class, Detail: detail,
		Witness: map[string]interface{}{"remove_missing_err": w.mode, "ops": append([]string(nil), w.ops...)}})
}

func heightClass(h, tip int) string {
	switch {
	case h == -1:
		return "-1"
	case h < 0:
		return "negative"
	case h > tip:
		return "beyond-tip"
	case h == tip:
		return "tip"
	case h/1000 == tip/1000:
		return "in-newest-file"
	default:
		return "in-older-file"
	}
}

// enabledOps lists the macro operations applicable in the current reference state.
func (w *c09World) enabledOps() []string {
	var ops []string
	tip := w.tip()
	ops = append(ops, "add")
	for _, b := range w.bounds {
		if b > tip+1 {
			ops = append(ops, "grow:"+strconv.Itoa(b))
		}
	}
	for _, b := range w.bounds {
		if b <= tip {
			ops = append(ops, "revert:"+strconv.Itoa(b))
		}
	}
	if tip > 3 && tip%1000 > 3 {
		ops = append(ops, "revert:"+strconv.Itoa(tip-3))
	}
	// a revert during which the first / second storage operation fails: must leave everything as it was
	for _, b := range w.bounds {
		if b <= tip-1 && b >= tip-1002 {
			ops = append(ops, "frevert:"+strconv.Itoa(b)+":1", "frevert:"+strconv.Itoa(b)+":2")
			break
		}
	}
	if tip > 3 && tip%1000 > 3 {
		ops = append(ops, "frevert:"+strconv.Itoa(tip-3)+":1")
	}
	// an equal-length reorganisation (the most common shape): revert by n, append n other headers
	for _, n := range []int{1, 3} {
		if tip > n {
			ops = append(ops, "fork:"+strconv.Itoa(n))
		}
	}
	ops = append(ops, "save", "save+reload")
	return ops
}

func guard(f func()) (pv interface{}) {
	defer func() { pv = recover() }()
	f()
	return nil
}

func (w *c09World) apply(op string) {
	ctx := core.Ctx()
	w.ops = append(w.ops, op)
	parts := strings.SplitN(op, ":", 2)
	arg := 0
	if len(parts) == 2 {
		arg, _ = strconv.Atoi(parts[1])
	}
	switch parts[0] {
	case "frevert":
		fa := strings.SplitN(parts[1], ":", 2)
		target, _ := strconv.Atoi(fa[0])
		k, _ := strconv.Atoi(fa[1])
		w.store.FailAt, w.store.FailSticky = w.store.Ops+k, false
		nFailed := len(w.store.Failed)
		var err error
		pv := guard(func() { err = w.repo.Revert(ctx, target) })
		w.store.FailAt = 0
		if pv != nil {
			w.fail("revert-panics", "storage fault", fmt.Sprintf("Revert(%d) from %d with a failing storage operation panicked: %v", target, w.tip(), pv))
			return
		}
		if len(w.store.Failed) == nFailed || err == nil {
			// the revert issued fewer storage operations than k, or survived the fault: it is a plain revert then
			if err != nil {
				w.fail("revert-valid-height-fails", "no fault", fmt.Sprintf("Revert(%d) from tip %d returned %v", target, w.tip(), err))
				return
			}
			for h := w.tip(); h > target; h-- {
				w.gone = append(w.gone, *w.ref[h].BlockHash())
			}
			w.ref = w.ref[:target+1]
			w.salt++
			w.saved = "current"
			w.probe("after revert (a storage operation failed but the revert succeeded)", "")
			return
		}
		// a failed revert leaves the store unchanged: all queries still agree with the unreverted reference
		w.probe("after a revert that failed on a storage fault", fmt.Sprintf("Revert(%d) from tip %d returned %v; ", target, w.tip(), err))
		return
	case "fork":
		w.ops = w.ops[:len(w.ops)-1]
		w.apply("revert:" + strconv.Itoa(w.tip()-arg))
		for i := 0; i < arg && len(w.viol) == 0; i++ {
			w.apply("add")
		}
		return
	case "add", "grow":
		target := w.tip() + 1
		if parts[0] == "grow" {
			target = arg
		}
		for w.tip() < target {
			h := c09Header(*w.ref[w.tip()].BlockHash(), w.tip()+1, w.salt)
			var err error
			if pv := guard(func() { err = w.repo.Add(ctx, &h) }); pv != nil {
				w.fail("add-panics", "Add", fmt.Sprintf("Add at height %d panicked: %v", w.tip()+1, pv))
				return
			}
			if err != nil {
				w.fail("add-fails", "Add", fmt.Sprintf("Add at height %d failed: %v", w.tip()+1, err))
				return
			}
			if len(w.ref)%1000 == 0 {
				w.saved = "never" // a new newest file starts (the full one was saved by Add)
			} else if w.saved == "current" {
				w.saved = "stale"
			}
			w.ref = append(w.ref, h)
		}
	case "revert":
		var err error
		before := w.saved
		if pv := guard(func() { err = w.repo.Revert(ctx, arg) }); pv != nil {
			w.fail("revert-panics", "newest file "+before, fmt.Sprintf("Revert(%d) from %d panicked: %v", arg, w.tip(), pv))
			return
		}
		if err != nil {
			// a failing revert must leave everything unchanged; the probes below check that
			w.probe("after failed revert (newest file "+before+")", fmt.Sprintf("Revert(%d) from tip %d returned %v; ", arg, w.tip(), err))
			if len(w.viol) == 0 {
				// unchanged store: acceptable per the property, but a revert to a valid height that
				// cannot be performed at all means the chain can never reorganise
				w.fail("revert-valid-height-fails", "newest file "+before,
					fmt.Sprintf("Revert(%d) from tip %d returned %v", arg, w.tip(), err))
			}
			return
		}
		for h := w.tip(); h > arg; h-- {
			w.gone = append(w.gone, *w.ref[h].BlockHash())
		}
		w.ref = w.ref[:arg+1]
		w.salt++
		w.saved = "current" // Revert documents "Saves after"
	case "save", "save+reload":
		if err := w.repo.Save(ctx); err != nil {
			w.fail("save-fails", "Save", err.Error())
			return
		}
		w.saved = "current"
		if parts[0] == "save+reload" {
			repo := storage.NewBlockRepository(w.cfg, w.store)
			var err error
			if pv := guard(func() { err = repo.Load(ctx) }); pv != nil {
				w.fail("load-panics", "Load", fmt.Sprint(pv))
				return
			}
			if err != nil {
				w.fail("load-after-save-fails", "Load", err.Error())
				return
			}
			w.repo = repo
		}
	}
	w.probe("after "+parts[0]+" (newest file "+w.saved+")", "")
	if parts[0] == "save" || parts[0] == "save+reload" {
		w.probeNode()
	}
}

func (w *c09World) probeHeights() []int {
	tip := w.tip()
	set := map[int]bool{}
	add := func(h int) { set[h] = true }
	for _, h := range []int{-1000, -2, -1, 0, 1, tip - 1, tip, tip + 1, tip + 1000} {
		add(h)
	}
	for k := 1000; k <= tip+1; k += 1000 {
		add(k - 1)
		add(k)
		add(k + 1)
	}
	out := make([]int, 0, len(set))
	for h := range set {
		out = append(out, h)
	}
	return out
}

// probe compares every query against the reference list.
func (w *c09World) probe(when, prefix string) {
	ctx := core.Ctx()
	tip := w.tip()
	repo := w.repo
	if got := repo.LastHeight(); got != tip {
		w.fail("last-height", when, fmt.Sprintf("%sLastHeight=%d want %d", prefix, got, tip))
	}
	var lh *bitcoin.Hash32
	if pv := guard(func() { lh = repo.LastHash() }); pv != nil {
		w.fail("query-panics", when+" LastHash", fmt.Sprintf("%sLastHash panicked: %v", prefix, pv))
	} else if lh == nil || !lh.Equal(w.ref[tip].BlockHash()) {
		w.fail("last-hash", when, fmt.Sprintf("%sLastHash=%v want %v (height %d)", prefix, lh, w.ref[tip].BlockHash(), tip))
	}
	for _, h := range w.probeHeights() {
		hc := heightClass(h, tip)
		inRange := h >= 0 && h <= tip
		w.queries += 3
		// Hash
		var hash *bitcoin.Hash32
		var err error
		if pv := guard(func() { hash, err = repo.Hash(ctx, h) }); pv != nil {
			w.fail("query-panics", when+" Hash("+hc+")", fmt.Sprintf("%sHash(%d) with tip %d panicked: %v", prefix, h, tip, pv))
		} else if inRange {
			if err != nil || hash == nil || !hash.Equal(w.ref[h].BlockHash()) {
				w.fail("hash-by-height", when+" Hash("+hc+")", fmt.Sprintf("%sHash(%d)=%v,%v want %v (tip %d)", prefix, h, hash, err, w.ref[h].BlockHash(), tip))
			}
		} else if err == nil && hash != nil {
			w.fail("out-of-range-answers", when+" Hash("+hc+")", fmt.Sprintf("%sHash(%d)=%v with tip %d, want error/empty", prefix, h, hash, tip))
		}
		// Header (-1 = tip is documented here)
		var hdr *wire.BlockHeader
		if pv := guard(func() { hdr, err = repo.Header(ctx, h) }); pv != nil {
			w.fail("query-panics", when+" Header("+hc+")", fmt.Sprintf("%sHeader(%d) with tip %d panicked: %v", prefix, h, tip, pv))
		} else {
			want := h
			if h == -1 {
				want = tip
			}
			if want >= 0 && want <= tip {
				if err != nil || hdr == nil || !hdr.BlockHash().Equal(w.ref[want].BlockHash()) {
					w.fail("header-by-height", when+" Header("+hc+")", fmt.Sprintf("%sHeader(%d) err=%v wrong header (tip %d)", prefix, h, err, tip))
				}
			} else if err == nil && hdr != nil {
				w.fail("out-of-range-answers", when+" Header("+hc+")", fmt.Sprintf("%sHeader(%d) returned a header with tip %d", prefix, h, tip))
			}
		}
		// Time
		var tm uint32
		if pv := guard(func() { tm, err = repo.Time(ctx, h) }); pv != nil {
			w.fail("query-panics", when+" Time("+hc+")", fmt.Sprintf("%sTime(%d) with tip %d panicked: %v", prefix, h, tip, pv))
		} else if inRange {
			if err != nil || tm != w.ref[h].Timestamp {
				w.fail("time-by-height", when+" Time("+hc+")", fmt.Sprintf("%sTime(%d)=%d,%v want %d", prefix, h, tm, err, w.ref[h].Timestamp))
			}
		} else if err == nil && tm != 0 {
			w.fail("out-of-range-answers", when+" Time("+hc+")", fmt.Sprintf("%sTime(%d)=%d with tip %d", prefix, h, tm, tip))
		}
		// by hash
		if inRange {
			w.queries += 2
			hh := w.ref[h].BlockHash()
			if got, ok := repo.Height(hh); !ok || got != h {
				w.fail("height-by-hash", when+" Height("+hc+")", fmt.Sprintf("%sHeight(hash@%d)=%d,%v", prefix, h, got, ok))
			}
			if !repo.Contains(hh) {
				w.fail("contains", when+" Contains("+hc+")", fmt.Sprintf("%sContains(hash@%d)=false", prefix, h))
			}
		}
	}
	// removed hashes must be unknown
	n := len(w.gone)
	idx := []int{0, n / 2, n - 1}
	for _, i := range idx {
		if i < 0 || i >= n {
			continue
		}
		w.queries += 2
		g := w.gone[i]
		if repo.Contains(&g) {
			w.fail("reverted-hash-still-known", when, fmt.Sprintf("%sContains(reverted hash)=true", prefix))
		}
		if hgt, ok := repo.Height(&g); ok {
			w.fail("reverted-hash-still-known", when, fmt.Sprintf("%sHeight(reverted hash)=%d", prefix, hgt))
		}
	}
}

// probeNode loads a Node on a copy of the store (exported AddPeer path) and checks its queries.
func (w *c09World) probeNode() {
	ctx := core.Ctx()
	st := w.store.Clone()
	node := spynode.NewNode(w.cfg, st, nil, nil)
	if err := node.AddPeer(ctx, "127.0.0.1:8333", 1); err != nil {
		w.fail("node-load-fails", "AddPeer", err.Error())
		return
	}
	tip := w.tip()
	if got := node.LastHeight(ctx); got != tip {
		w.fail("node-last-height", "node", fmt.Sprintf("node LastHeight=%d want %d after save", got, tip))
		return
	}
	for _, h := range []int{-1, 0, tip, tip + 1} {
		w.queries++
		var bh *bitcoin.Hash32
		var err error
		if pv := guard(func() { bh, err = node.BlockHash(ctx, h) }); pv != nil {
			w.fail("query-panics", "node BlockHash("+heightClass(h, tip)+")", fmt.Sprint(pv))
			continue
		}
		want := h
		if h == -1 {
			want = tip
		}
		if want <= tip {
			if err != nil || bh == nil || !bh.Equal(w.ref[want].BlockHash()) {
				w.fail("node-block-hash", "node BlockHash("+heightClass(h, tip)+")", fmt.Sprintf("BlockHash(%d)=%v,%v", h, bh, err))
			}
		} else if err == nil && bh != nil {
			w.fail("out-of-range-answers", "node BlockHash(beyond-tip)", fmt.Sprintf("BlockHash(%d)=%v", h, bh))
		}
	}
	starts := []int{-1, 0, 1, tip - 1, tip, tip + 1}
	for k := 1000; k <= tip; k += 1000 {
		starts = append(starts, k-1, k)
	}
	for _, h := range starts {
		if h < -1 {
			continue
		}
		for _, count := range []int{0, 1, 2, 3, 1000, 1001} {
			if count >= 1000 && !(h == -1 || h >= tip-1 || (h == 0 && tip < 1002)) {
				continue // large counts only where they are cheap: served from memory or truncated
			}
			w.queries++
			var res interface{ GetHeaders() []*wire.BlockHeader }
			_ = res
			var hs []*wire.BlockHeader
			var startH uint32
			var err error
			pv := guard(func() {
				r, e := node.GetHeaders(ctx, h, count)
				err = e
				if r != nil {
					hs, startH = r.Headers, r.StartHeight
				}
			})
			cls := fmt.Sprintf("GetHeaders(%s,count=%d)", heightClass(h, tip), count)
			if pv != nil {
				w.fail("query-panics", "node "+cls, fmt.Sprintf("GetHeaders(%d,%d) tip %d panicked: %v", h, count, tip, pv))
				continue
			}
			if h > tip {
				if err == nil && len(hs) > 0 {
					w.fail("out-of-range-answers", "node "+cls, fmt.Sprintf("GetHeaders(%d,%d) returned %d headers beyond tip %d", h, count, len(hs), tip))
				}
				continue
			}
			if err != nil {
				w.fail("range-query", "node "+cls+" error", fmt.Sprintf("GetHeaders(%d,%d) tip %d: %v", h, count, tip, err))
				continue
			}
			var wantStart, wantN int
			if h == -1 {
				wantN = count
				if wantN > tip+1 {
					wantN = tip + 1
				}
				wantStart = tip - wantN + 1
			} else {
				wantStart = h
				wantN = count
				if wantN > tip-h+1 {
					wantN = tip - h + 1
				}
			}
			if len(hs) != wantN {
				w.fail("range-query", "node "+cls+" length", fmt.Sprintf("GetHeaders(%d,%d) with tip %d returned %d headers, want %d", h, count, tip, len(hs), wantN))
				continue
			}
			if wantN > 0 && int(startH) != wantStart {
				w.fail("range-query", "node "+cls+" start", fmt.Sprintf("GetHeaders(%d,%d) StartHeight=%d want %d", h, count, startH, wantStart))
				continue
			}
			for i, x := range hs {
				if !x.BlockHash().Equal(w.ref[wantStart+i].BlockHash()) {
					w.fail("range-query", "node "+cls+" content", fmt.Sprintf("GetHeaders(%d,%d) header %d is not the header at height %d", h, count, i, wantStart+i))
					break
				}
			}
		}
	}
}

func c09RunSeq(mode bool, bounds []int, ops []string) *c09World {
	w, err := newC09World(mode, bounds)
	if err != nil {
		w = &c09World{}
		w.fail("load-fails", "empty store", err.Error())
		return w
	}
	for _, op := range ops {
		w.apply(op)
		if len(w.viol) > 0 {
			break
		}
	}
	return w
}

// c09Explore enumerates every sequence extending prefix up to total length depth.
func c09Explore(t c09Task) c09Result {
	var res c09Result
	outcomes := map[string]bool{}
	seenViol := map[string]bool{}
	var rec func(seq []string)
	rec = func(seq []string) {
		w := c09RunSeq(t.RemoveMissingErr, t.Bounds, seq)
		res.Sequences++
		res.Queries += w.queries
		outcomes[fmt.Sprintf("tip=%d saved=%s reverted=%d", w.tip0(), w.saved, len(w.gone))] = true
		if res.Sample == nil && len(seq) == t.Depth {
			res.Sample = map[string]interface{}{"remove_missing_err": t.RemoveMissingErr, "ops": seq, "final_tip": w.tip0()}
		}
		if len(w.viol) > 0 {
			for _, v := range w.viol {
				if !seenViol[v.Key()] {
					seenViol[v.Key()] = true
					res.Violations = append(res.Violations, v)
				}
			}
			return // do not extend a sequence that already failed
		}
		if len(seq) >= t.Depth {
			return
		}
		for _, op := range w.enabledOps() {
			rec(append(append([]string(nil), seq...), op))
		}
	}
	rec(t.Prefix)
	for o := range outcomes {
		res.Outcomes = append(res.Outcomes, o)
	}
	return res
}

func (w *c09World) tip0() int {
	if w.ref == nil {
		return -1
	}
	return w.tip()
}

func init() {
	core.RegisterOp("c09", func(arg json.RawMessage) (interface{}, error) {
		var t c09Task
		if err := json.Unmarshal(arg, &t); err != nil {
			return nil, err
		}
		return c09Explore(t), nil
	})
	All["C09"] = runC09
	Replayers["C09"] = func(wit json.RawMessage) []core.Violation {
		var x struct {
			Mode bool     `json:"remove_missing_err"`
			Ops  []string `json:"ops"`
		}
		json.Unmarshal(wit, &x)
		return c09RunSeq(x.Mode, c09BoundsFull, x.Ops).viol
	}
}

func runC09() int {
	rep := core.NewReport("C09", "model_checking")
	type cfg struct {
		depth  int
		bounds []int
	}
	cfgs := []cfg{{3, c09BoundsQuick}}
	if rep.Thorough() {
		cfgs = []cfg{{3, c09BoundsFull}, {4, c09BoundsDeep}}
	}
	// work units: every 2-op prefix (the worker extends each to the full depth)
	var tasks []interface{}
	for _, c := range cfgs {
		for _, mode := range []bool{true, false} {
			w0, _ := newC09World(mode, c.bounds)
			for _, a := range w0.enabledOps() {
				w1 := c09RunSeq(mode, c.bounds, []string{a})
				if len(w1.viol) > 0 {
					tasks = append(tasks, c09Task{mode, []string{a}, 1, c.bounds})
					continue
				}
				for _, b := range w1.enabledOps() {
					tasks = append(tasks, c09Task{mode, []string{a, b}, c.depth, c.bounds})
				}
			}
		}
	}
	pool := core.NewPool()
	seqs, queries, deadlineHit := 0, 0, 0
	pool.Map("c09", tasks, func(i int, r core.TaskResult) {
		if rep.Thorough() && r.Err == "" && strings.Contains(r.Died, "timed out") {
			// an internal (wall-clock) deadline, not a verdict: the work unit is reported as not covered
			rep.Exhaustive = false
			deadlineHit++
			rep.Coverage["cap_hit"] = fmt.Sprintf("%d work units hit the per-task deadline and are not covered (first: %v)", deadlineHit, tasks[i])
			return
		}
		if r.Died != "" || r.Err != "" {
			rep.HarnessError("task %v: %s%s", tasks[i], r.Died, r.Err)
			return
		}
		var res c09Result
		json.Unmarshal(r.Res, &res)
		seqs += res.Sequences
		queries += res.Queries
		for _, o := range res.Outcomes {
			rep.Outcome(o)
		}
		for _, v := range res.Violations {
			rep.AddViolation(v)
		}
		if res.Sample != nil {
			rep.AddSample(res.Sample)
		}
	})
	rep.Coverage["states"] = seqs
	rep.Coverage["transitions"] = seqs
	rep.Coverage["traces_validated_against_impl"] = seqs
	rep.Coverage["evaluations"] = seqs
	rep.Coverage["distinct_nontrivial"] = len(rep.Outcomes)
	rep.Coverage["queries_compared"] = queries
	rep.Coverage["rule"] = fmt.Sprintf("every sequence of <= depth macro operations {add 1, grow to boundary height, revert to boundary height, revert with the first / second storage operation failing, equal-length fork of 1 / 3 headers, save, save+reload} over boundary heights (%s), both delete-missing behaviours; each executed on the real BlockRepository over RecStore and compared after every operation with a reference slice (every by-height/by-hash/tip query at all file boundaries +-1, negative and beyond-tip heights; node-level BlockHash/GetHeaders after each save). states = operation sequences executed (no merging); distinct = distinct (tip, newest-file-saved state, number of reverted headers) outcomes", fmt.Sprint(cfgs))
	rep.Coverage["depth_completed"] = cfgs[len(cfgs)-1].depth
	rep.Assumptions = []string{"storage Write/Remove are atomic per key", "headers are synthetic (no proof of work); branch salt makes re-grown headers differ from reverted ones"}
	repoConc(rep, "C09")
	return rep.Finish()
}
