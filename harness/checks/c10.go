//go:build verif

package checks

import (
	"os"
	"strings"
	"encoding/json"
	"fmt"

	"github.com/tokenized/pkg/bitcoin"
	"github.com/tokenized/spynode/internal/storage"
	"github.com/tokenized/spynode/internal/verif/core"
)

// C10: crash-point and single-fault enumeration over canonical sync / reorg / shutdown histories.

type c10Scenario struct {
	Name string     `json:"name"`
	P    histParams `json:"p"`
	Hist []string   `json:"hist"`
}

func c10Scenarios(thorough bool) []c10Scenario {
	small := WorldCfg{InitialChain: 4, StartHeight: 2, SafeDelayMS: 2000}
	boundary := WorldCfg{InitialChain: 1001, StartHeight: 998, SafeDelayMS: 2000}
	var out []c10Scenario
	for _, rm := range []bool{true, false} {
		s, b := small, boundary
		s.RemoveMissing, b.RemoveMissing = rm, rm
		tag := fmt.Sprintf(" (delete-missing error=%v)", rm)
		out = append(out,
			c10Scenario{"sync, extend, reorg depth 1 and 2 within a file, clean stop" + tag, histParams{Prop: "C10", Cfg: s, Boot: "cold"},
				[]string{"settle", "ext:1", "settle", "reorg:1:2", "settle", "reorg:2:3", "settle", "restart:raw"}},
			c10Scenario{"reorg with a relevant tx in the reverted block" + tag, histParams{Prop: "C10", Cfg: s, Boot: "cold", Tx: true},
				[]string{"settle", "mine+:R1", "reorg:1:2", "settle", "mine+:R1", "restart:raw"}},
			c10Scenario{"sync over the 1000 boundary, reorg across it, clean stop" + tag, histParams{Prop: "C10", Cfg: b, Boot: "cold"},
				[]string{"settle", "ext:1", "settle", "reorg:4:5", "settle", "restart:raw"}},
		)
		out = append(out, c10Scenario{"reorg across the 1000 boundary, then the connection drops before the peer answers again (reconnect saves), clean stop" + tag, histParams{Prop: "C10", Cfg: b, Boot: "cold"},
			[]string{"settle", "ext:1", "settle", "reorg:4:5", "drop", "tick:1500", "settle", "restart:raw"}},
			c10Scenario{"reorg across the 1000 boundary, clean stop right after the fork was announced" + tag, histParams{Prop: "C10", Cfg: b, Boot: "cold"},
				[]string{"settle", "ext:1", "settle", "reorg:4:5", "restart:raw"}})
		if rm || thorough {
			// the start block lies above the first file boundary: the headers below it are appended by the
			// headers handler itself (pre-start mode), including the roll-over write of the first full file
			pre := WorldCfg{InitialChain: 1003, StartHeight: 1002, SafeDelayMS: 2000, RemoveMissing: rm}
			out = append(out, c10Scenario{"header sync below the start block over the 1000 boundary, clean stop" + tag, histParams{Prop: "C10", Cfg: pre, Boot: "cold"},
				[]string{"settle", "ext:1", "settle", "restart:raw"}})
			out = append(out, c10Scenario{"header sync below the start block over the 1000 boundary, the peer repeats its headers messages" + tag, histParams{Prop: "C10", Cfg: pre, Boot: "cold"},
				[]string{"ans", "duph:0", "settle", "duph:0", "duph:1", "ext:1", "settle", "restart:raw"}})
		}
		if thorough {
			out = append(out, c10Scenario{"reorg before the first save, back and forth" + tag, histParams{Prop: "C10", Cfg: s, Boot: "cold"},
				[]string{"ans", "ans", "reorg:1:2", "settle", "back:1", "settle", "reorg:3:4", "settle", "restart:raw"}},
				c10Scenario{"two reorgs across the boundary" + tag, histParams{Prop: "C10", Cfg: b, Boot: "cold"},
					[]string{"settle", "reorg:2:3", "settle", "reorg:5:7", "settle", "back:1", "settle", "restart:raw"}})
		}
	}
	return out
}

type c10Task struct {
	Scenario c10Scenario `json:"s"`
	Mode     string      `json:"mode"` // count | crash | fault
	Index    int         `json:"i"`
	Trunc    bool        `json:"trunc,omitempty"` // fault mode: leave out the scenario's final restart, so the node lives on with whatever the failed operation left in memory
}

type c10Result struct {
	Mutations  int              `json:"mutations"`
	Ops        int              `json:"ops"`
	OpsTrunc   int              `json:"ops_trunc"`
	Violations []core.Violation `json:"violations"`
	Outcome    string           `json:"outcome"`
	FailedOp   string           `json:"failed_op"`
}

// c10Run executes the scenario's history; with failAt > 0 the failAt-th storage operation fails.
func c10Run(sc c10Scenario, failAt int) *World {
	p := sc.P
	w := NewWorld(p.Cfg)
	if p.Tx {
		w.SetupTxUniverse()
		w.cfg.Subscribe = [][]byte{subKey[:]}
	}
	w.Store.FailAt = failAt
	w.baseStore = w.Store.Clone()
	w.StartNode()
	w.settle()
	for _, ev := range sc.Hist {
		if w.livelock || len(w.S.Panics()) > 0 {
			break
		}
		if w.runDone && ev != "restart:raw" {
			// Run ended by itself (e.g. a storage error at load): the operator restarts it
			w.StartNode()
			w.settle()
		}
		w.applyEvent(ev)
	}
	return w
}

// loadedChainCheck loads a BlockRepository directly from the store and checks it is hash-linked
// and made only of blocks the peer produced (hence on one branch).
func (w *World) loadedChainCheck(st *core.RecStore, what string) bool {
	ctx := core.Ctx()
	repo := storage.NewBlockRepository(w.NodeCfg, st.Clone())
	var err error
	if pv := guard(func() { err = repo.Load(ctx) }); pv != nil {
		w.fail("C10", "image-loads", "block store load panics ("+what+")", fmt.Sprint(pv))
		return false
	}
	if err != nil {
		w.fail("C10", "image-loads", "block store does not load ("+what+")", err.Error())
		return false
	}
	tip := repo.LastHeight()
	var below *bitcoin.Hash32
	for h := 0; h <= tip; h++ {
		hdr, err := repo.Header(ctx, h)
		if err != nil {
			w.fail("C10", "image-chain-linked", "header unreadable ("+what+")", fmt.Sprintf("Header(%d) with tip %d: %v", h, tip, err))
			return false
		}
		hh := hdr.BlockHash()
		if h > 0 {
			if _, ok := w.Tree.byHash[*hh]; !ok {
				w.fail("C10", "image-one-branch", "stored block was never announced ("+what+")", fmt.Sprintf("height %d", h))
				return false
			}
			if !hdr.PrevBlock.Equal(below) {
				w.fail("C10", "image-chain-linked", "mixture of branches ("+what+")", fmt.Sprintf("block at height %d does not link to height %d (tip %d)", h, h-1, tip))
				return false
			}
		}
		below = hh
	}
	return true
}

func c10Exec(t c10Task) c10Result {
	var res c10Result
	switch t.Mode {
	case "count":
		wt := c10Run(truncScenario(t.Scenario), 0)
		res.OpsTrunc = wt.Store.Ops
		wt.Close()
		w := c10Run(t.Scenario, 0)
		res.Mutations, res.Ops = len(w.Store.Log), w.Store.Ops
		w.PanicViolations("C10")
		res.Violations = w.viol
		w.Close()
	case "crash":
		w := c10Run(t.Scenario, 0)
		if t.Index > len(w.Store.Log) {
			w.Close()
			return res
		}
		what := "crash"
		if t.Index > 0 {
			m := w.Store.Log[t.Index-1]
			what = fmt.Sprintf("crash after %s of %s", m.Kind, keyClass(m.Key))
		}
		img := core.ImageAt(w.baseStore, w.Store.Log, t.Index)
		img.RemoveMissingErr = w.Store.RemoveMissingErr
		w.viol = nil
		if w.loadedChainCheck(img, what) {
			// the process died; a new node starts on the surviving image and must converge again
			w.S.KillAll(true)
			w.P = nil
			w.Store = img
			w.hist = append(append([]string(nil), t.Scenario.Hist...), fmt.Sprintf("CRASH@%d", t.Index))
			w.StartNode()
			w.settle()
			ok, why := w.drainConverge()
			w.PanicViolations("C10")
			if !ok && len(w.viol) == 0 {
				w.fail("C10", "reconverges-after-crash", "node on the crash image does not converge ("+what+")", why)
			}
			if w.runDone && w.runErr != nil && len(w.viol) == 0 {
				w.fail("C10", "image-loads", "node does not start on the crash image ("+what+")", w.runErr.Error())
			}
		}
		for i := range w.viol {
			w.viol[i].Witness = map[string]interface{}{"scenario": t.Scenario, "mode": "crash", "index": t.Index}
		}
		res.Violations = w.viol
		res.Outcome = what
		w.Close()
	case "fault":
		if t.Trunc {
			t.Scenario = truncScenario(t.Scenario)
		}
		w := c10Run(t.Scenario, t.Index)
		w.viol = nil
		what := "no op failed"
		if len(w.Store.Failed) > 0 {
			what = w.Store.Failed[0]
			res.FailedOp = what
		}
		cls := opClass(what)
		if os.Getenv("VERIF_TRACE") != "" {
			ok, why := w.Converged()
			println("C10 fault run: failed op:", what, "converged:", ok, why, "runDone:", w.runDone)
		}
		w.PanicViolations("C10")
		if len(w.viol) == 0 {
			// either the running node is consistent, or a restart recovers
			if w.runDone {
				w.StartNode()
				w.settle()
			}
			ok, _ := w.drainConverge()
			w.PanicViolations("C10")
			if !ok && len(w.viol) == 0 {
				// The operator's first reaction is a clean stop. A node that one failed storage operation has
				// wedged so that Stop never returns cannot "recover on restart" without being killed.
				if !w.runDone {
					w.StopNode()
					for i := range w.viol {
						if w.viol[i].Clause == "stop-terminates" {
							w.viol[i].Property, w.viol[i].Clause = "C10", "recovers-after-fault"
							w.viol[i].Class = "node cannot be stopped after the fault (failed " + cls + ")"
						}
					}
				}
			}
			if !ok && len(w.viol) == 0 {
				// restart (unclean: nothing more is written) and try again
				w.S.KillAll(true)
				w.P = nil
				if w.loadedChainCheck(w.Store, "after failed "+cls) {
					w.StartNode()
					w.settle()
					ok2, why := w.drainConverge()
					w.PanicViolations("C10")
					if !ok2 && len(w.viol) == 0 {
						w.fail("C10", "recovers-after-fault", "no recovery even after a restart (failed "+cls+")", why)
					}
				}
			} else if len(w.viol) == 0 {
				w.chainInvariants("C10")
				if len(w.viol) == 0 && !w.runDone {
					// what the node leaves behind after a clean stop must load as one announced branch as well
					w.StopNode()
					if len(w.viol) == 0 && w.loadedChainCheck(w.Store, "clean stop after failed "+cls) {
						w.StartNode()
						w.settle()
						if ok3, why := w.drainConverge(); !ok3 && len(w.viol) == 0 {
							w.fail("C10", "recovers-after-fault", "node restarted after the fault and a clean stop does not converge (failed "+cls+")", why)
						}
					}
				}
			}
		}
		for i := range w.viol {
			w.viol[i].Witness = map[string]interface{}{"scenario": t.Scenario, "mode": "fault", "index": t.Index, "failed_op": what, "trunc": false}
			w.viol[i].Class += " [failed " + cls + "]"
		}
		res.Violations = w.viol
		res.Outcome = "failed " + cls
		w.Close()
	}
	return res
}

// truncScenario drops a trailing restart from the scenario's history.
func truncScenario(sc c10Scenario) c10Scenario {
	if n := len(sc.Hist); n > 0 && strings.HasPrefix(sc.Hist[n-1], "restart") {
		sc.Hist = append([]string(nil), sc.Hist[:n-1]...)
	}
	return sc
}

func keyClass(k string) string {
	switch {
	case len(k) > 15 && k[:15] == "spynode/blocks/":
		return "block file"
	case k == "spynode/txs/unconfirmed":
		return "unconfirmed file"
	case len(k) > 18 && k[:18] == "spynode/txs/state/":
		return "tx state"
	case len(k) > 12 && k[:12] == "spynode/txs/":
		return "block tx file"
	case len(k) > 15 && k[:15] == "spynode/reorgs/":
		return "reorg record"
	case k == "spynode/peers":
		return "peers file"
	}
	return k
}

func opClass(op string) string {
	for i := 0; i < len(op); i++ {
		if op[i] == ' ' {
			return op[:i] + " of " + keyClass(op[i+1:])
		}
	}
	return op
}

func init() {
	core.RegisterOp("c10", func(arg json.RawMessage) (interface{}, error) {
		var t c10Task
		if err := json.Unmarshal(arg, &t); err != nil {
			return nil, err
		}
		return c10Exec(t), nil
	})
	All["C10"] = runC10
	debugScenarios["C10"] = func() []histParams {
		var out []histParams
		for _, sc := range c10Scenarios(true) {
			out = append(out, sc.P)
		}
		return out
	}
	Replayers["C10"] = func(wit json.RawMessage) []core.Violation {
		var x struct {
			Scenario c10Scenario `json:"scenario"`
			Mode     string      `json:"mode"`
			Index    int         `json:"index"`
		}
		json.Unmarshal(wit, &x)
		return c10Exec(c10Task{Scenario: x.Scenario, Mode: x.Mode, Index: x.Index}).Violations
	}
}

func runC10() int {
	rep := core.NewReport("C10", "fault_enumeration")
	pool := core.NewPool()
	scs := c10Scenarios(rep.Thorough())
	var counts []interface{}
	for _, s := range scs {
		counts = append(counts, c10Task{Scenario: s, Mode: "count"})
	}
	muts := make([]int, len(scs))
	ops := make([]int, len(scs))
	opsT := make([]int, len(scs))
	pool.Map("c10", counts, func(i int, r core.TaskResult) {
		if r.Died != "" || r.Err != "" {
			rep.HarnessError("scenario %q: %s%s", scs[i].Name, r.Died, r.Err)
			return
		}
		var res c10Result
		json.Unmarshal(r.Res, &res)
		muts[i], ops[i], opsT[i] = res.Mutations, res.Ops, res.OpsTrunc
		for _, v := range res.Violations {
			rep.AddViolation(v)
		}
	})
	var tasks []interface{}
	var meta []c10Task
	for si, s := range scs {
		for i := 0; i <= muts[si]; i++ {
			t := c10Task{Scenario: s, Mode: "crash", Index: i}
			tasks = append(tasks, t)
			meta = append(meta, t)
		}
		for j := 1; j <= ops[si]; j++ {
			t := c10Task{Scenario: s, Mode: "fault", Index: j}
			tasks = append(tasks, t)
			meta = append(meta, t)
		}
		for j := 1; j <= opsT[si]; j++ {
			t := c10Task{Scenario: s, Mode: "fault", Index: j, Trunc: true}
			tasks = append(tasks, t)
			meta = append(meta, t)
		}
	}
	crashes, faults := 0, 0
	pool.Map("c10", tasks, func(i int, r core.TaskResult) {
		if r.Died != "" || r.Err != "" {
			rep.AddViolation(core.Violation{Property: "C10", Clause: "execution-terminates", Class: meta[i].Mode + " run did not finish",
				Detail: r.Died + r.Err, Witness: map[string]interface{}{"scenario": meta[i].Scenario, "mode": meta[i].Mode, "index": meta[i].Index}})
			return
		}
		var res c10Result
		json.Unmarshal(r.Res, &res)
		if meta[i].Mode == "crash" {
			crashes++
		} else {
			faults++
		}
		rep.Outcome(res.Outcome)
		for _, v := range res.Violations {
			if v.Property == "C10" || v.Clause == "panic" || v.Clause == "livelock" {
				v.Property = "C10"
				rep.AddViolation(v)
			}
		}
		if i%37 == 0 {
			rep.AddSample(map[string]interface{}{"scenario": meta[i].Scenario.Name, "history": meta[i].Scenario.Hist, "mode": meta[i].Mode, "index": meta[i].Index, "what": res.Outcome})
		}
	})
	rep.Coverage["evaluations"] = crashes + faults
	rep.Coverage["crash_images"] = crashes
	rep.Coverage["single_faults"] = faults
	rep.Coverage["scenarios"] = len(scs)
	per := map[string]string{}
	for i, s := range scs {
		per[s.Name] = fmt.Sprintf("%d mutations, %d operations", muts[i], ops[i])
	}
	rep.Coverage["per_scenario"] = per
	rep.Coverage["distinct_nontrivial"] = len(rep.Outcomes)
	rep.Coverage["rule"] = "for each canonical history (sync, extension, reorgs within a file and across the 1000-header boundary, reorg with a relevant tx in the reverted block, clean stop; both delete-missing behaviours) executed on the real node: (a) for EVERY prefix of the storage mutation log a fresh node is started on that image: the block store must load, be hash-linked and consist only of announced blocks, and the node must converge to the peer's best chain after the drain; (b) for EVERY storage operation j (read/write/remove/list) that operation fails once: the running node must converge, or a restart must. distinct = distinct (kind of op, kind of key) crash/fault sites"
	rep.Assumptions = append(peerAssumption, "storage writes/removes are atomic per key (no torn files)", "after a crash the peer is at the best chain it had at the end of the history")
	repoConc(rep, "C10")
	return rep.Finish()
}
