//go:build verif

package checks

import (
	"fmt"
	"sort"
	"strings"
	"time"

	"github.com/tokenized/pkg/bitcoin"
	"github.com/tokenized/spynode/internal/state"
	"github.com/tokenized/spynode/internal/storage"
	"github.com/tokenized/spynode/internal/verif/core"
	"github.com/tokenized/spynode/pkg/vrt"
)

// C11 component part: the unconfirmed set must behave the same before and after save + load
// (flags, ms-truncated first-seen time), for 0..n entries x every flag combination.

type c11Entry struct {
	flags int   // bit0 trusted, bit1 safe, bit2 unsafe
	tns   int64 // first-seen time offset in ns
}

var c11Times = []int64{0, 1500000 + 777, 999999600, 3000000000 + 1}

func c11Txid(i int) bitcoin.Hash32 {
	var h bitcoin.Hash32
	h[0], h[1] = byte(i+1), 0xc1
	return h
}

func c11Build(entries []c11Entry, st *core.RecStore) (*storage.TxRepository, error) {
	ctx := core.Ctx()
	repo := storage.NewTxRepository(st)
	for i, e := range entries {
		vrt.PassNow = e.tns
		if _, _, err := repo.Add(ctx, c11Txid(i), e.flags&1 != 0, e.flags&2 != 0, -1); err != nil {
			return nil, err
		}
		if e.flags&4 != 0 {
			if _, err := repo.MarkUnsafe(ctx, c11Txid(i)); err != nil {
				return nil, err
			}
		}
	}
	return repo, nil
}

func c11Dump(repo *storage.TxRepository) string {
	f, ok := core.Field(repo, "unconfirmed")
	if !ok {
		return "n/a"
	}
	var parts []string
	it := f.MapRange()
	for it.Next() {
		k := it.Key()
		v := it.Value()
		var id [2]byte
		id[0], id[1] = byte(k.Index(0).Uint()), byte(k.Index(1).Uint())
		flags := ""
		for _, n := range []string{"unsafe", "safe", "trusted"} {
			if x, ok := core.Field(v.Interface(), n); ok {
				flags += fmt.Sprintf("%s=%v ", n, x.Bool())
			}
		}
		tm := ""
		if x, ok := core.Field(v.Interface(), "time"); ok {
			if t, ok := x.Interface().(time.Time); ok {
				tm = fmt.Sprint(t.UnixNano() / 1e6)
			}
		}
		parts = append(parts, fmt.Sprintf("%x:%s@%s", id, flags, tm))
	}
	sort.Strings(parts)
	return strings.Join(parts, ";")
}

// c11Probe runs a fixed behavioural probe sequence and returns its observations.
func c11Probe(repo *storage.TxRepository, n int) string {
	ctx := core.Ctx()
	var sb strings.Builder
	base := time.Unix(vrt.BaseUnix, 0)
	mpNone := state.NewMemPool()
	names := func(hs []bitcoin.Hash32) string {
		var s []string
		for _, h := range hs {
			s = append(s, fmt.Sprint(h[0]))
		}
		sort.Strings(s)
		return strings.Join(s, ",")
	}
	for i := 0; i < n; i++ {
		ok, _ := repo.Contains(ctx, c11Txid(i), -1)
		fmt.Fprintf(&sb, "has%d=%v;", i, ok)
	}
	for _, cut := range []int64{-1000000, 1000000, 3000000, 1001000000, 3002000000} {
		hs, err := repo.GetNewSafe(ctx, mpNone, base.Add(time.Duration(cut)))
		fmt.Fprintf(&sb, "newsafe@%d=%s/%v;", cut/1e6, names(hs), err)
	}
	for i := 0; i < n; i++ {
		added, newly, err := repo.Add(ctx, c11Txid(i), false, true, -1)
		fmt.Fprintf(&sb, "readd%d=%v/%v/%v;", i, added, newly, err)
	}
	return sb.String()
}

func c11Component(rep *core.Report, maxN int) {
	ctx := core.Ctx()
	cases, distinct := 0, map[string]bool{}
	var rec func(entries []c11Entry)
	check := func(entries []c11Entry) {
		cases++
		st := core.NewRecStore(true)
		orig, err := c11Build(entries, st)
		fail := func(clause, class, detail string) {
			rep.AddViolation(core.Violation{Property: "C11", Clause: clause, Class: class, Detail: detail,
				Witness: map[string]interface{}{"entries": fmt.Sprint(entries)}})
		}
		if err != nil {
			fail("unconfirmed-build", "Add/MarkUnsafe failed", err.Error())
			return
		}
		if err := orig.Save(ctx); err != nil {
			fail("unconfirmed-save", "Save failed", err.Error())
			return
		}
		loaded := storage.NewTxRepository(st)
		var lerr error
		if pv := guard(func() { lerr = loaded.Load(ctx) }); pv != nil {
			fail("unconfirmed-load", "Load panicked", fmt.Sprint(pv))
			return
		}
		if lerr != nil {
			fail("unconfirmed-load", "Load failed", lerr.Error())
			return
		}
		d1, d2 := c11Dump(orig), c11Dump(loaded)
		distinct[d1] = true
		if d1 != d2 {
			cls := "flags/time differ after save+load"
			for _, n := range []string{" trusted", " safe", ":unsafe"} {
				if strings.Count(d1, n+"=true") != strings.Count(d2, n+"=true") {
					cls = strings.Trim(n, " :") + " flag differs after save+load"
				}
			}
			fail("flags-survive-restart", cls, fmt.Sprintf("before: %s\nafter:  %s", d1, d2))
			return
		}
		// behavioural twin: same probe sequence on both objects
		orig2, _ := c11Build(entries, core.NewRecStore(true))
		p1, p2 := c11Probe(orig2, len(entries)), c11Probe(loaded, len(entries))
		if p1 != p2 {
			fail("behaviour-survives-restart", "probe sequence answers differ after save+load", fmt.Sprintf("in-memory: %s\nreloaded:  %s", p1, p2))
		}
		if cases%53 == 1 {
			rep.AddSample(map[string]interface{}{"unconfirmed_entries": fmt.Sprint(entries), "dump": d1})
		}
	}
	rec = func(entries []c11Entry) {
		check(entries)
		if len(entries) >= maxN {
			return
		}
		for f := 0; f < 8; f++ {
			for _, t := range c11Times {
				rec(append(append([]c11Entry(nil), entries...), c11Entry{f, t}))
			}
		}
	}
	rec(nil)
	vrt.PassNow = 0
	rep.Coverage["component_cases"] = cases
	rep.Coverage["component_distinct_sets"] = len(distinct)
}
