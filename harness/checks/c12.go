//go:build verif

package checks

import (
	"bytes"
	"encoding/json"
	"fmt"
	"sort"
	"strings"
	"time"

	"github.com/tokenized/pkg/bitcoin"
	"github.com/tokenized/pkg/wire"
	"github.com/tokenized/spynode/internal/verif/core"
)

// C12: non-interference of untrusted connections. Every history over trusted + untrusted events
// is run twice: as is, and with the untrusted events removed; the trusted-side observations must
// agree (DESIGN §4 C12). Untrusted events are raw messages an arbitrary peer can send.

func isUntrustedEvent(ev string) bool { return strings.HasPrefix(ev, "u") }

// applyUntrustedRaw: uh:<shape>, uinv:<tx>, utx:<tx>, ublock:<which>, uaddr, ugarbage
func (w *World) applyUntrustedRaw(p []string) (bool, bool) {
	pc := w.U[untrustedAddrs[0]]
	alive := pc != nil && pc.conn != nil && !pc.conn.IsClosed() && !pc.conn.Peer.IsClosed()
	switch p[0] {
	case "uh":
		if !alive {
			return true, false
		}
		tipH := len(w.Best) - 1
		hm := wire.NewMsgHeaders()
		addBest := func(from, to int) {
			for i := from; i <= to && i < len(w.Best); i++ {
				if i < 0 {
					continue
				}
				hd := w.Tree.blocks[w.Best[i]].msg.Header
				hm.AddBlockHeader(&hd)
			}
		}
		switch p[1] {
		case "good": // linked headers whose first is known and near the tip
			addBest(tipH-2, tipH)
		case "low": // first header far below the tip
			addBest(0, 1)
		case "unknown": // first header not on the node's chain
			hd := core.MakeHeader(bitcoin.Hash32{0xaa}, 77, 777, bitcoin.Hash32{1})
			hm.AddBlockHeader(&hd)
		case "unlinked": // known first header, second does not link to it
			addBest(tipH-1, tipH-1)
			hd := core.MakeHeader(bitcoin.Hash32{0xab}, 78, 778, bitcoin.Hash32{2})
			hm.AddBlockHeader(&hd)
			hd2 := core.MakeHeader(*hd.BlockHash(), 79, 779, bitcoin.Hash32{3})
			hm.AddBlockHeader(&hd2)
		case "lowfork": // an old block of our chain (far below the tip) followed by a long linked fork that ends above the tip
			if tipH < 40 {
				return true, false
			}
			addBest(tipH-30, tipH-30)
			prev := w.Tree.blocks[w.Best[tipH-30]].hash
			for i := 0; i < 34; i++ {
				hd := core.MakeHeader(prev, tipH-29+i, uint32(7000+i), bitcoin.Hash32{byte(i), 0x77})
				hm.AddBlockHeader(&hd)
				prev = *hd.BlockHash()
			}
		case "orphan": // linked headers of the branch the trusted peer abandoned in its last reorganisation, ending at the old tip
			if len(w.Abandoned) < 4 {
				return true, false
			}
			for i := len(w.Abandoned) - 4; i < len(w.Abandoned); i++ {
				if i < len(w.Best) && w.Best[i] == w.Abandoned[i] {
					continue // still common to both branches
				}
				hd := w.Tree.blocks[w.Abandoned[i]].msg.Header
				hm.AddBlockHeader(&hd)
			}
			if len(hm.Headers) == 0 {
				return true, false
			}
		case "empty":
		}
		w.send(pc, hm)
		w.settle()
		return true, true
	case "uinv":
		if !alive {
			return true, false
		}
		inv := wire.NewMsgInv()
		h := *w.Txs[p[1]].TxHash()
		inv.AddInvVect(wire.NewInvVect(wire.InvTypeTx, &h))
		w.uMempool("U1", p[1])
		w.noteArrival(p[1], "U1", "inv")
		w.send(pc, inv)
		w.settle()
		return true, true
	case "utx":
		if !alive {
			return true, false
		}
		w.noteArrival(p[1], "U1", "tx")
		w.send(pc, w.Txs[p[1]])
		w.settle()
		return true, true
	case "uxtx": // the tx wrapped in the large-message framing (extmsg)
		if !alive {
			return true, false
		}
		w.noteArrival(p[1], "U1", "tx")
		var buf bytes.Buffer
		if err := w.Txs[p[1]].BtcEncode(&buf, wire.ProtocolVersion); err != nil {
			panic(err)
		}
		w.send(pc, &wire.MsgExtended{ExtCommand: wire.CmdTx, Length: uint64(buf.Len()), Payload: buf.Bytes()})
		w.settle()
		return true, true
	case "ublock", "uxblock":
		if !alive {
			return true, false
		}
		var msg *wire.MsgBlock
		switch p[1] {
		case "tip": // a valid block the node already has
			msg = w.Tree.blocks[w.Best[len(w.Best)-1]].msg
		case "fake": // header of a block the trusted peer has announced / will serve, other body
			target := w.Best[len(w.Best)-1]
			if w.P != nil {
				for _, r := range w.P.pending {
					if r.kind == "block" {
						if n, ok := w.Tree.byHash[r.hash]; ok {
							target = n
							break
						}
					}
				}
			}
			good := w.Tree.blocks[target].msg
			msg = &wire.MsgBlock{Header: good.Header}
			for i, t := range good.Transactions {
				c := t.Copy()
				if i == 0 {
					c.LockTime = 99
				}
				msg.AddTransaction(&c)
			}
		case "real": // the genuine body of an outstanding (or just delivered) request, relayed by the untrusted peer
			target := w.Best[len(w.Best)-1]
			if w.P != nil {
				for _, r := range w.P.pending {
					if r.kind == "block" {
						if n, ok := w.Tree.byHash[r.hash]; ok {
							target = n
							break
						}
					}
				}
			}
			msg = w.Tree.blocks[target].msg
		case "orphan": // a valid block on an unknown parent
			msg = core.MakeBlock(bitcoin.Hash32{0xac}, 50, 5050, nil)
		}
		if p[0] == "uxblock" {
			var buf bytes.Buffer
			if err := msg.BtcEncode(&buf, wire.ProtocolVersion); err != nil {
				panic(err)
			}
			w.send(pc, &wire.MsgExtended{ExtCommand: wire.CmdBlock, Length: uint64(buf.Len()), Payload: buf.Bytes()})
		} else {
			w.send(pc, msg)
		}
		w.settle()
		return true, true
	case "uaddr":
		if !alive {
			return true, false
		}
		am := wire.NewMsgAddr()
		w.send(pc, am)
		w.settle()
		return true, true
	case "ugarbage":
		if !alive {
			return true, false
		}
		w.sendRaw(pc, []byte{0xe3, 0xe1, 0xf3, 0xe8, 'x', 'y', 'z', 0, 0, 0, 0, 0, 0, 0, 0, 0, 4, 0, 0, 0, 1, 2, 3, 4, 9, 9, 9, 9})
		w.settle()
		return true, true
	case "uping":
		return false, false
	}
	return false, false
}

// trustedObs: what the property says untrusted traffic must not change.
type trustedObs struct {
	Chain     []string
	Headers   []string
	Confirmed []string
	Safe      []string
	Converged bool
	Timeouts  bool // convergence needed the node's request time-outs (a stall until then)
	Buffered  int64 // buffered-block-bytes counter of the request state after the drain (nothing is buffered then)
	New       []string // txids delivered as new (informational: untrusted peers may add unconfirmed txs)
}

func (w *World) observeTrusted(converged bool) trustedObs {
	ctx := core.Ctx()
	var o trustedObs
	o.Converged = converged
	o.Timeouts = w.drainTimeouts
	if f, ok := core.Field(w.Node, "state", "pendingBlockSize"); ok && f.CanInt() {
		o.Buffered = f.Int()
	}
	tip := w.Node.LastHeight(ctx)
	for h := 0; h <= tip; h++ {
		x, err := w.Node.Hash(ctx, h)
		if err != nil || x == nil {
			o.Chain = append(o.Chain, "?")
			continue
		}
		o.Chain = append(o.Chain, w.Tree.byHash[*x])
	}
	conf, safe := map[string]bool{}, map[string]bool{}
	for _, e := range w.H[0].events {
		switch e.Kind {
		case "headers":
			o.Headers = append(o.Headers, fmt.Sprintf("%d:%s", e.Height, w.Tree.byHash[e.Hash]))
		case "tx", "update":
			n := w.TxNames[e.TxID]
			if e.State.MerkleProof != nil {
				conf[n+"@"+w.Tree.byHash[*e.State.MerkleProof.BlockHeader.BlockHash()]] = true
			}
			if e.State.Safe {
				safe[n] = true
			}
			if e.Kind == "tx" {
				o.New = append(o.New, n)
			}
		}
	}
	for k := range conf {
		o.Confirmed = append(o.Confirmed, k)
	}
	for k := range safe {
		o.Safe = append(o.Safe, k)
	}
	sort.Strings(o.Confirmed)
	sort.Strings(o.Safe)
	return o
}

// c12Run executes a history (with untrusted raw events) and returns the world after the drain.
func c12Run(p histParams, hist []string) (*World, trustedObs, string) {
	w := NewWorld(p.Cfg)
	w.SetupTxUniverse()
	w.cfg.Subscribe = [][]byte{subKey[:]}
	w.SetupUntrusted(1)
	w.manualUntrusted = true
	w.StartNode()
	w.settle()
	if !w.bootSync(60) {
		w.fail("C12", "boot-sync", "initial sync", "node did not reach in-sync")
	}
	// let the node dial the untrusted peer and finish the version handshake; header verification is
	// left to the explored events
	for i := 0; i < 12 && (w.U[untrustedAddrs[0]].conn == nil || !w.U[untrustedAddrs[0]].gotVerack); i++ {
		w.Tick(500 * time.Millisecond)
	}
	w.lastUnsync = w.S.Now
	for _, ev := range hist {
		if len(w.viol) > 0 || w.livelock || len(w.S.Panics()) > 0 {
			break
		}
		w.applyEvent(ev)
	}
	w.PanicViolations("C12")
	key := ""
	if len(w.viol) == 0 {
		key = w.Key(w.txMonitorKey())
	}
	w.enabledAtKey = nil
	for _, ev := range p.Events { // what can happen next is decided in the state the key describes, before the drain
		if w.eventEnabled(ev) {
			w.enabledAtKey = append(w.enabledAtKey, ev)
		}
	}
	ok, _ := w.drainConverge()
	for i := 0; i < 10; i++ { // past the safe delay
		w.pingAll()
		w.Tick(300 * time.Millisecond)
	}
	w.PanicViolations("C12")
	return w, w.observeTrusted(ok), key
}

func c12Compare(p histParams, hist []string) (string, []string, []core.Violation, string) {
	w, obs, key := c12Run(p, hist)
	viol := append([]core.Violation(nil), w.viol...)
	fail := func(clause, class, detail string) {
		viol = append(viol, core.Violation{Property: "C12", Clause: clause, Class: class, Detail: detail,
			Witness: map[string]interface{}{"hist": hist, "scenario": p}})
	}
	enabled := w.enabledAtKey
	// direct clauses
	verifiedSent := false
	for _, ev := range hist {
		if ev == "uh:good" {
			verifiedSent = true
		}
	}
	if !verifiedSent {
		for _, pcm := range w.U[untrustedAddrs[0]].recvLog {
			if gd, ok := pcm.(*wire.MsgGetData); ok {
				for _, iv := range gd.InvList {
					if iv.Type == wire.InvTypeTx {
						fail("unverified-peer-ignored", "tx requested from an untrusted peer that never proved it is on the same chain", fmt.Sprintf("getdata for %s", w.TxNames[iv.Hash]))
					}
				}
			}
		}
		for n, arr := range w.arrivals {
			onlyU := true
			for _, a := range arr {
				if a.src != "U1" {
					onlyU = false
				}
			}
			if onlyU && w.tracks(0)[n] != nil {
				fail("unverified-peer-ignored", "tx from an unverified untrusted peer delivered", "tx "+n)
			}
		}
	}
	w.Close()
	var proj []string
	hasU := false
	for _, ev := range hist {
		if isUntrustedEvent(ev) {
			hasU = true
		} else {
			proj = append(proj, ev)
		}
	}
	outcome := fmt.Sprintf("chain=%d conf=%d safe=%d", len(obs.Chain), len(obs.Confirmed), len(obs.Safe))
	if !hasU {
		return key, enabled, viol, outcome
	}
	w2, ref, _ := c12Run(p, proj)
	w2.Close()
	lastU := ""
	for _, ev := range hist {
		if isUntrustedEvent(ev) {
			lastU = strings.SplitN(ev, ":", 2)[0]
			if strings.HasPrefix(ev, "ublock") || strings.HasPrefix(ev, "uh") {
				lastU = ev
			}
		}
	}
	if obs.Converged && ref.Converged && obs.Timeouts && !ref.Timeouts {
		fail("syncing-not-stalled", "untrusted traffic stalled the node until a request time-out fired (involving "+lastU+")", "with the untrusted events the node only reached the trusted peer's tip after its 60 s / 600 s request time-outs forced a reconnect; without them it followed at once")
	}
	if obs.Converged && ref.Converged && obs.Buffered != ref.Buffered {
		fail("syncing-not-stalled", "untrusted traffic leaves the buffered-block-bytes counter off (it pauses block requests above 100 MB) (involving "+lastU+")", fmt.Sprintf("after the drain nothing is buffered; counter with untrusted events: %d, without: %d", obs.Buffered, ref.Buffered))
	}
	if fmt.Sprint(obs.Chain) != fmt.Sprint(ref.Chain) || obs.Converged != ref.Converged {
		fail("chain-unaffected", "final chain differs with untrusted traffic (involving "+lastU+")", fmt.Sprintf("with untrusted events: chain %v converged=%v; without: chain %v converged=%v", obs.Chain, obs.Converged, ref.Chain, ref.Converged))
	} else if fmt.Sprint(obs.Headers) != fmt.Sprint(ref.Headers) {
		fail("headers-unaffected", "HandleHeaders sequence differs with untrusted traffic (involving "+lastU+")", fmt.Sprintf("with: %v\nwithout: %v", obs.Headers, ref.Headers))
	}
	if fmt.Sprint(obs.Confirmed) != fmt.Sprint(ref.Confirmed) {
		fail("confirmations-unaffected", "confirmed notifications differ with untrusted traffic (involving "+lastU+")", fmt.Sprintf("with: %v\nwithout: %v", obs.Confirmed, ref.Confirmed))
	}
	refSafe := map[string]bool{}
	for _, s := range ref.Safe {
		refSafe[s] = true
	}
	for _, s := range obs.Safe {
		vouched := false
		for _, ev := range hist { // the trusted peer announced or sent it: "safe" is then the trusted peer's word
			if ev == "inv:T:"+s || ev == "tx:T:"+s {
				vouched = true
			}
		}
		if !refSafe[s] && !vouched {
			fail("no-vouching", "tx reported safe only because of untrusted traffic (involving "+lastU+")", fmt.Sprintf("tx %s is reported safe with the untrusted events %v but not without them", s, hist))
		}
	}
	return key, enabled, viol, outcome
}

func c12Scenarios() []histParams {
	ev := []string{"ext:1", "ans", "tx:T:R1", "inv:T:R3", "mine:R1", "tick:250", "tick:2300",
		"uh:good", "uh:low", "uh:unknown", "uh:unlinked", "uh:empty", "uinv:R3", "utx:R3", "uxtx:R3", "utx:D1", "utx:I1", "ublock:tip", "ublock:fake", "uxblock:fake", "ublock:orphan", "uaddr", "ugarbage"}
	cfg := txCfg(1)
	cfg.InitialChain, cfg.StartHeight = 12, 10
	// second scenario: one level deeper over the events around an outstanding / delivered-but-unprocessed block
	// request and a verified untrusted peer's transactions
	focus := []string{"ext:1", "ans", "tick:250", "tick:2300", "restart", "uh:good", "uinv:R3", "utx:R3", "uxtx:R3", "inv:T:R3", "ublock:fake", "uxblock:fake", "ublock:real"}
	// third scenario: the trusted peer reorganises across the 1000-header file boundary; an untrusted peer
	// that is still on the abandoned branch must not pass the same-chain proof
	deep := txCfg(1)
	deep.InitialChain, deep.StartHeight = 1002, 995
	fork := []string{"reorg+:5:6", "uh:orphan", "uh:lowfork", "uh:good", "utx:R3", "tick:2300"}
	return []histParams{{Prop: "C12", Cfg: cfg, Boot: "synced", Events: ev, Tx: true},
		{Prop: "C12", Cfg: cfg, Boot: "synced", Events: focus, Tx: true, ExtraDepth: 1},
		{Prop: "C12", Cfg: deep, Boot: "synced", Events: fork, Tx: true}}
}

func init() {
	core.RegisterExpander("c12", func(params json.RawMessage, hist []string) []core.Succ {
		var p histParams
		json.Unmarshal(params, &p)
		_, enabled, viol, _ := c12Compare(p, hist)
		if len(viol) > 0 {
			return nil
		}
		var out []core.Succ
		for _, ev := range enabled {
			h2 := append(append([]string(nil), hist...), ev)
			key, _, v, outcome := c12Compare(p, h2)
			s := core.Succ{Event: ev, Key: key, Outcome: outcome}
			if len(v) > 0 {
				s.Violations, s.Terminal = v, true
			}
			out = append(out, s)
		}
		return out
	})
	All["C12"] = func() int {
		rep := core.NewReport("C12", "model_checking")
		pool := core.NewPool()
		depth, maxStates, budget := 3, 200000, 150*time.Second
		if rep.Thorough() {
			depth, maxStates, budget = 5, 3000000, 25*time.Minute
		}
		deadline := time.Now().Add(budget)
		totS, totT, minDepth := 0, 0, -1
		for si, sc := range c12Scenarios() {
			key, _, viol, _ := c12Compare(sc, nil)
			for _, v := range viol {
				rep.AddViolation(v)
			}
			if len(viol) > 0 {
				continue
			}
			sub := core.NewReport("C12", "model_checking")
			st := core.BFS(pool, sub, core.BFSOpts{Op: "c12", Params: sc, MaxDepth: depth + sc.ExtraDepth, MaxStates: maxStates, Deadline: deadline, InitKey: key, Batch: 2})
			totS, totT = totS+st.States, totT+st.Transitions
			if minDepth < 0 || st.Depth-sc.ExtraDepth < minDepth {
				minDepth = st.Depth - sc.ExtraDepth
			}
			for _, v := range sub.Violations {
				rep.AddViolation(v)
			}
			for o := range sub.Outcomes {
				rep.Outcome(o)
			}
			for _, smp := range sub.Samples {
				rep.AddSample(map[string]interface{}{"scenario": si, "history": smp})
			}
			for _, e := range sub.HarnessErrs {
				rep.HarnessError("%s", e)
			}
			if !sub.Exhaustive {
				rep.Exhaustive = false
				rep.Coverage["cap_hit"] = sub.Coverage["cap_hit"]
			}
			rep.Coverage[fmt.Sprintf("scenario_%d_levels", si)] = st.LevelSizes
		}
		rep.Coverage["states"], rep.Coverage["transitions"], rep.Coverage["traces_validated_against_impl"], rep.Coverage["depth_completed"] = totS, totT, totT, minDepth
		kept := rep.Violations[:0]
		for _, v := range rep.Violations {
			if v.Property == "C12" || v.Clause == "panic" || v.Clause == "livelock" {
				v.Property = "C12"
				kept = append(kept, v)
			}
		}
		rep.Violations = kept
		rep.Coverage["rule"] = "differential explicit-state BFS: every history over trusted events {extend, answer, trusted tx/inv, mine, clock} and raw untrusted-connection messages {headers: linked near tip / low / unknown first / unlinked / empty; inv; tx (relevant, conflicting, irrelevant); tx in the large-message (extmsg) framing; block: already held / header of an outstanding or delivered-but-unprocessed request with another body (plain and extmsg) / orphan; addr; garbage} is executed on the real node twice - as is and with the untrusted events removed - followed by a fair drain; final chain, HandleHeaders sequence and confirmed notifications must be identical the safe set may only shrink, and the run with untrusted traffic must not need the node's request time-outs to converge when the run without does not; nothing is requested from or delivered because of a peer that never passed header verification"
		rep.Assumptions = append(peerAssumption, "one untrusted connection; the trusted peer is well behaved")
		return rep.Finish()
	}
	Replayers["C12"] = func(wit json.RawMessage) []core.Violation {
		var x struct {
			Hist     []string   `json:"hist"`
			Scenario histParams `json:"scenario"`
		}
		json.Unmarshal(wit, &x)
		_, _, v, _ := c12Compare(x.Scenario, x.Hist)
		return v
	}
}
