//go:build verif

package checks

import (
	"encoding/json"
	"fmt"
	"strings"
	"time"

	"github.com/tokenized/pkg/bitcoin"
	"github.com/tokenized/pkg/wire"
	"github.com/tokenized/spynode/internal/state"
	"github.com/tokenized/spynode/internal/verif/core"
)

// C13 (component level): state.State's block request window against a two-FIFO reference model,
// explicit-state BFS over operation sequences (DESIGN §4 C13).

const (
	c13Window = 10
	c13Limit  = 100000000
	c13Big    = 60000000
	c13Small  = 300
)

type fakeBlock struct {
	bad  bool // body does not hash to the header's merkle root
	hdr  wire.BlockHeader
	size int
}

func (b *fakeBlock) GetHeader() wire.BlockHeader      { return b.hdr }
func (b *fakeBlock) IsMerkleRootValid() bool          { return !b.bad }
func (b *fakeBlock) GetTxCount() uint64               { return 0 }
func (b *fakeBlock) GetNextTx() (*wire.MsgTx, error)  { return nil, nil }
func (b *fakeBlock) ResetTxs()                        {}
func (b *fakeBlock) SerializeSize() int               { return b.size }

// tree: base B; trunk T1..T14; fork G3,G4 on T2; fork H1 on B.
type c13Tree struct {
	hdr    map[string]wire.BlockHeader
	hash   map[string]bitcoin.Hash32
	name   map[bitcoin.Hash32]string
	parent map[string]string
	kids   map[string][]string
}

func newC13Tree() *c13Tree {
	t := &c13Tree{hdr: map[string]wire.BlockHeader{}, hash: map[string]bitcoin.Hash32{},
		name: map[bitcoin.Hash32]string{}, parent: map[string]string{}, kids: map[string][]string{}}
	add := func(name, parent string, height int, salt uint32) {
		var prev bitcoin.Hash32
		if parent != "" {
			prev = t.hash[parent]
		}
		h := core.MakeHeader(prev, height, salt, bitcoin.Hash32{byte(height), byte(salt)})
		t.hdr[name] = h
		t.hash[name] = *h.BlockHash()
		t.name[t.hash[name]] = name
		t.parent[name] = parent
		if parent != "" {
			t.kids[parent] = append(t.kids[parent], name)
		}
	}
	add("B", "", 100, 0)
	prev := "B"
	for i := 1; i <= 14; i++ {
		n := fmt.Sprintf("T%d", i)
		add(n, prev, 100+i, 1)
		prev = n
	}
	add("G3", "T2", 103, 2)
	add("G4", "G3", 104, 2)
	add("H1", "B", 101, 3)
	add("X", "", 500, 9) // unknown to everything
	return t
}

var c13T = newC13Tree()

type c13Req struct {
	name   string
	filled bool
	size   int
}

type c13Ref struct {
	requested []c13Req
	toRequest []string
	pending   int
	last      string
}

func (r *c13Ref) tail() string {
	if n := len(r.toRequest); n > 0 {
		return r.toRequest[n-1]
	}
	if n := len(r.requested); n > 0 {
		return r.requested[n-1].name
	}
	return r.last
}

func (r *c13Ref) key() string {
	var sb strings.Builder
	for _, q := range r.requested {
		fmt.Fprintf(&sb, "%s:%v:%d,", q.name, q.filled, q.size)
	}
	sb.WriteString("|")
	sb.WriteString(strings.Join(r.toRequest, ","))
	fmt.Fprintf(&sb, "|%d|%s", r.pending, r.last)
	return sb.String()
}

// reference transitions; each returns the expected observable result as a string.
func (r *c13Ref) announce(prev, name string) string {
	if len(r.toRequest) > 0 {
		if r.toRequest[len(r.toRequest)-1] != prev {
			return "err"
		}
		r.toRequest = append(r.toRequest, name)
		return "queued"
	}
	if len(r.requested) > 0 {
		if r.requested[len(r.requested)-1].name != prev {
			return "err"
		}
	} else if r.last != prev {
		return "err"
	}
	if len(r.requested) >= c13Window || r.pending > c13Limit {
		r.toRequest = []string{name}
		return "queued"
	}
	r.requested = append(r.requested, c13Req{name: name})
	return "request"
}

func (r *c13Ref) deliver(name string, size int) string {
	for i := range r.requested {
		if r.requested[i].name == name {
			if r.requested[i].filled {
				r.pending -= r.requested[i].size
			}
			r.requested[i].filled = true
			r.requested[i].size = size
			r.pending += size
			return "accepted"
		}
	}
	return "ignored"
}

func (r *c13Ref) pop() string {
	if len(r.requested) == 0 || !r.requested[0].filled {
		return "none"
	}
	q := r.requested[0]
	r.pending -= q.size
	r.last = q.name
	r.requested = r.requested[1:]
	return q.name
}

func (r *c13Ref) nextReq() string {
	if len(r.toRequest) == 0 || len(r.requested) >= c13Window || r.pending > c13Limit {
		return "none"
	}
	n := r.toRequest[0]
	r.toRequest = r.toRequest[1:]
	r.requested = append(r.requested, c13Req{name: n})
	return fmt.Sprintf("%s/%d", n, len(r.requested))
}

func (r *c13Ref) clearAll() {
	r.requested, r.toRequest, r.pending = nil, nil, 0
}

func (r *c13Ref) clearAfter(name string) {
	for i, q := range r.requested {
		if q.name == name {
			r.requested = r.requested[:i+1]
			r.toRequest = nil
			r.pending = 0
			for _, x := range r.requested {
				if x.filled {
					r.pending += x.size
				}
			}
			return
		}
	}
	for i, q := range r.toRequest {
		if q == name {
			r.toRequest = r.toRequest[:i+1]
			return
		}
	}
}

type c13World struct {
	st  *state.State
	ref c13Ref
}

func newC13World() *c13World {
	w := &c13World{st: state.NewState()}
	w.st.SetLastHash(c13T.hash["B"])
	w.ref.last = "B"
	return w
}

func (w *c13World) enabled() []string {
	r := &w.ref
	var ops []string
	tail := r.tail()
	for _, k := range c13T.kids[tail] {
		ops = append(ops, "ann:"+tail+">"+k)
	}
	if strings.HasPrefix(tail, "T") || tail == "B" {
		ops = append(ops, "ann10:"+tail)
	}
	if tail != "T5" {
		ops = append(ops, "ann:T5>T6") // does not link
	}
	seen := map[string]bool{}
	addDel := func(n string) {
		if n == "" || seen[n] {
			return
		}
		seen[n] = true
		ops = append(ops, "del:"+n+":s", "del:"+n+":B", "del:"+n+":bad")
	}
	if n := len(r.requested); n > 0 {
		addDel(r.requested[0].name)
		if n > 1 {
			addDel(r.requested[1].name)
		}
		addDel(r.requested[n-1].name)
	}
	if len(r.toRequest) > 0 {
		addDel(r.toRequest[0])
	}
	addDel("X")
	ops = append(ops, "pop", "next", "clear")
	seenC := map[string]bool{}
	addC := func(n string) {
		if n == "" || seenC[n] {
			return
		}
		seenC[n] = true
		ops = append(ops, "after:"+n)
	}
	if n := len(r.requested); n > 0 {
		addC(r.requested[0].name)
		addC(r.requested[n-1].name)
		if n > 2 {
			addC(r.requested[n/2].name)
		}
	}
	if n := len(r.toRequest); n > 0 {
		addC(r.toRequest[0])
		addC(r.toRequest[n-1])
	}
	addC("X")
	ops = append(ops, "setlast:B", "setlast:T2")
	return ops
}

func hashName(h *bitcoin.Hash32) string {
	if h == nil {
		return "none"
	}
	if n, ok := c13T.name[*h]; ok {
		return n
	}
	return "?" + h.String()[:8]
}

// apply runs op on both the implementation and the reference and compares observables.
func (w *c13World) apply(op string) (viol []core.Violation) {
	fail := func(clause, class, detail string) {
		viol = append(viol, core.Violation{Property: "C13", Clause: clause, Class: class, Detail: detail})
	}
	ctx := core.Ctx()
	p := strings.Split(op, ":")
	kind := p[0]
	defer func() {
		if pv := recover(); pv != nil {
			fail("panic", kind, fmt.Sprintf("%s panicked: %v", op, pv))
		}
	}()
	switch kind {
	case "ann":
		e := strings.Split(p[1], ">")
		prev, name := c13T.hash[e[0]], c13T.hash[e[1]]
		send, err := w.st.AddBlockRequest(&prev, &name)
		got := "queued"
		if err != nil {
			got = "err"
		} else if send {
			got = "request"
		}
		want := w.ref.announce(e[0], e[1])
		if got != want {
			fail("announce-result", fmt.Sprintf("announce got %s want %s", got, want),
				fmt.Sprintf("AddBlockRequest(%s) = %s, reference says %s", p[1], got, want))
		}
	case "ann10":
		cur := p[1]
		for i := 0; i < 10; i++ {
			kids := c13T.kids[cur]
			if len(kids) == 0 {
				break
			}
			next := kids[0]
			prev, name := c13T.hash[cur], c13T.hash[next]
			send, err := w.st.AddBlockRequest(&prev, &name)
			got := "queued"
			if err != nil {
				got = "err"
			} else if send {
				got = "request"
			}
			want := w.ref.announce(cur, next)
			if got != want {
				fail("announce-result", fmt.Sprintf("announce got %s want %s", got, want),
					fmt.Sprintf("AddBlockRequest(%s>%s) = %s, reference says %s", cur, next, got, want))
				return
			}
			cur = next
		}
	case "del":
		size := c13Small
		if p[2] == "B" {
			size = c13Big
		}
		h := c13T.hash[p[1]]
		ok := w.st.AddBlock(&h, &fakeBlock{hdr: c13T.hdr[p[1]], size: size, bad: p[2] == "bad"})
		got := "ignored"
		if ok {
			got = "accepted"
		}
		want := "ignored" // a body that does not hash to the merkle root changes nothing
		if p[2] != "bad" {
			want = w.ref.deliver(p[1], size)
		}
		if got != want {
			fail("deliver-result", fmt.Sprintf("deliver got %s want %s", got, want),
				fmt.Sprintf("AddBlock(%s) = %s, reference says %s", p[1], got, want))
		}
	case "pop":
		b := w.st.NextBlock()
		got := "none"
		if b != nil {
			h := b.GetHeader()
			got = hashName(h.BlockHash())
		}
		want := w.ref.pop()
		if got != want {
			fail("pop-order", fmt.Sprintf("pop got %s want %s", classOf(got), classOf(want)),
				fmt.Sprintf("NextBlock() = %s, reference says %s", got, want))
		}
	case "next":
		h, n := w.st.GetNextBlockToRequest()
		got := "none"
		if h != nil {
			got = fmt.Sprintf("%s/%d", hashName(h), n)
		}
		want := w.ref.nextReq()
		if got != want {
			fail("next-request", fmt.Sprintf("next got %s want %s", classOf(got), classOf(want)),
				fmt.Sprintf("GetNextBlockToRequest() = %s, reference says %s", got, want))
		}
	case "clear":
		w.st.ClearBlockRequests(ctx)
		w.ref.clearAll()
	case "after":
		w.st.ClearBlockRequestsAfter(ctx, c13T.hash[p[1]])
		w.ref.clearAfter(p[1])
	case "setlast":
		w.st.SetLastHash(c13T.hash[p[1]])
		w.ref.last = p[1]
	}
	// state queries
	r := &w.ref
	if got := w.st.BlocksRequestedCount(); got != len(r.requested) {
		fail("requested-count", "after "+kind, fmt.Sprintf("after %s: BlocksRequestedCount=%d want %d", op, got, len(r.requested)))
	}
	if got := w.st.BlocksRequestedCount(); got > c13Window {
		fail("window-exceeded", "after "+kind, fmt.Sprintf("%d requested blocks outstanding", got))
	}
	if got := w.st.BlocksToRequestCount(); got != len(r.toRequest) {
		fail("to-request-count", "after "+kind, fmt.Sprintf("after %s: BlocksToRequestCount=%d want %d", op, got, len(r.toRequest)))
	}
	if got := w.st.TotalBlockRequestCount(); got != len(r.requested)+len(r.toRequest) {
		fail("total-count", "after "+kind, fmt.Sprintf("after %s: TotalBlockRequestCount=%d want %d", op, got, len(r.requested)+len(r.toRequest)))
	}
	if got := w.st.BlockRequestsEmpty(); got != (len(r.requested)+len(r.toRequest) == 0) {
		fail("requests-empty", "after "+kind, fmt.Sprintf("after %s: BlockRequestsEmpty=%v", op, got))
	}
	lh := w.st.LastHash()
	if got := hashName(&lh); got != r.tail() {
		fail("last-hash", "after "+kind, fmt.Sprintf("after %s: LastHash=%s want %s", op, got, r.tail()))
	}
	for _, n := range []string{"T1", "T2", "T11", "G3", "X"} {
		h := c13T.hash[n]
		inReq, inTo := false, false
		for _, q := range r.requested {
			if q.name == n {
				inReq = true
			}
		}
		for _, q := range r.toRequest {
			if q == n {
				inTo = true
			}
		}
		if w.st.BlockIsRequested(&h) != inReq {
			fail("is-requested", "after "+kind, fmt.Sprintf("after %s: BlockIsRequested(%s)=%v", op, n, !inReq))
		}
		if w.st.BlockIsToBeRequested(&h) != inTo {
			fail("is-to-be-requested", "after "+kind, fmt.Sprintf("after %s: BlockIsToBeRequested(%s)=%v", op, n, !inTo))
		}
	}
	// buffered-bytes accounting: read from the private field when it exists (secondary to the
	// behavioural comparison above, which diverges once a leak crosses the limit)
	if f, ok := core.Field(w.st, "pendingBlockSize"); ok && f.CanInt() {
		got := int(f.Int())
		if got != r.pending {
			anyFilled := false
			for _, q := range r.requested {
				if q.filled {
					anyFilled = true
				}
			}
			cls := "after " + kind
			if !anyFilled {
				cls += " (nothing buffered)"
			}
			fail("buffered-bytes-accounting", cls,
				fmt.Sprintf("after %s: buffered byte count=%d, reference=%d (blocks buffered: %v)", op, got, r.pending, anyFilled))
		}
	}
	return viol
}

func classOf(s string) string {
	if s == "none" {
		return "none"
	}
	return "block"
}

func (w *c13World) key() string {
	d := core.NewDumper(time.Unix(0, 0))
	d.Add("st", w.st)
	return core.HashStr(d.String() + "##" + w.ref.key())
}

func c13Replay(hist []string) (*c13World, []core.Violation) {
	w := newC13World()
	for _, op := range hist {
		if v := w.apply(op); len(v) > 0 {
			return w, v
		}
	}
	return w, nil
}

func init() {
	core.RegisterExpander("c13", func(params json.RawMessage, hist []string) []core.Succ {
		w, v := c13Replay(hist)
		if len(v) > 0 {
			return nil // prefix already failed (was reported when first reached)
		}
		var out []core.Succ
		for _, op := range w.enabled() {
			w2, _ := c13Replay(hist)
			viol := w2.apply(op)
			s := core.Succ{Event: op}
			if len(viol) > 0 {
				full := append(append([]string(nil), hist...), op)
				for i := range viol {
					viol[i].Witness = map[string]interface{}{"ops": full}
				}
				s.Violations = viol
				s.Terminal = true
			} else {
				s.Key = w2.key()
				s.Outcome = fmt.Sprintf("req=%d to=%d pend=%d", len(w2.ref.requested), len(w2.ref.toRequest), w2.ref.pending/c13Big)
			}
			out = append(out, s)
		}
		return out
	})
	Replayers["C13"] = func(wit json.RawMessage) []core.Violation {
		var x struct {
			Ops []string `json:"ops"`
		}
		json.Unmarshal(wit, &x)
		if len(x.Ops) == 0 {
			return nil
		}
		_, v := c13Replay(x.Ops)
		return v
	}
}

// c13Component runs the component-level BFS and fills rep.
func c13Component(rep *core.Report, pool *core.Pool, depth, maxStates int, deadline time.Time) core.BFSStats {
	w := newC13World()
	return core.BFS(pool, rep, core.BFSOpts{Op: "c13", Params: map[string]int{}, MaxDepth: depth,
		MaxStates: maxStates, Deadline: deadline, InitKey: w.key(), Batch: 64})
}

func init() { All["C13"] = runC13 }

func runC13() int {
	rep := core.NewReport("C13", "model_checking")
	pool := core.NewPool()
	depth, maxStates, budget := 6, 400000, 100*time.Second
	if rep.Thorough() {
		depth, maxStates, budget = 9, 6000000, 20*time.Minute
	}
	c13Component(rep, pool, depth, maxStates, time.Now().Add(budget))
	c13Conc(rep)
	// node level: announcements longer than the ten-block window (a backlog exists), forks off the
	// window and off the backlog, bodies in any order - on the real Node.Run
	histCheckInto(rep, histCheck{prop: "C13", scenarios: c13NodeScenarios(), depthQ: 4, depthT: 6, statesQ: 150000, statesT: 2000000,
		budgetQ: 100 * time.Second, budgetT: 20 * time.Minute, assume: peerAssumption,
		accept: func(v core.Violation) bool { return v.Clause == "converges-after-drain" }})
	rep.Coverage["rule"] = "(1) node level: explicit-state BFS over histories {extend by 12 (more than the window), fork off the last / third-last / twelfth-last announced block, answer oldest / second-oldest / all block requests, clock} on the real Node.Run; oracle over the timestamped getdata(block) messages and HandleHeaders callbacks: chain order, at most once per connection unless the branch was abandoned, never more than ten outstanding, nothing processed from an abandoned branch after the fork was announced, and convergence to the new branch. (2) component: explicit-state BFS over operation sequences on the real state.State {announce linked/unlinked header, announce 10, deliver small/60MB body for requested/queued/unknown hash, pop, next-request, clear-all, clear-after, set-last} over a tree (trunk of 14, two forks); every return value and count compared with a two-FIFO reference after every step; state key = reflective dump of State + reference"
	rep.Assumptions = []string{"block bodies are fakes that only report a size", "window = 10, byte limit = 100 MB (constants of the implementation)"}
	return rep.Finish()
}

func c13NodeScenarios() []histParams {
	ev := []string{"ext:12", "ext:1", "reorg:1:2", "reorg:3:4", "reorg:12:13", "duph:0", "duph:1", "ans", "ans:1", "ansb", "tick:250", "settle"}
	// raw headers messages that announce a branch and a fork off it in one message, bodies in any order
	adv := []string{"h:b4,b5,e5,e6", "h:b4,b5", "h:b4,b5,b6,e5", "h:e5,e6", "h:b4,e5", "b:b4", "b:b5", "b:e5", "b:e6", "tick:250"}
	return []histParams{{Prop: "C13", Cfg: WorldCfg{InitialChain: 4, StartHeight: 2, SafeDelayMS: 2000, RemoveMissing: true}, Boot: "synced", Events: ev, Drain: true, BlockFetch: true},
		{Prop: "C13", Cfg: WorldCfg{InitialChain: 3, StartHeight: 2, ExtraTrunk: 3, SafeDelayMS: 2000, RemoveMissing: true}, Boot: "synced", Events: adv, Adversarial: true, BlockFetch: true}}
}
