//go:build verif

package checks

// C13, concurrent part: the block request state is shared by the trusted connection's handlers,
// every untrusted connection's block handler and the block processor. Two or three threads run
// short programs of real State operations (deliver a body, clear, clear-after, pop, reset); every
// mutex operation is a scheduling point and all interleavings within the pre-emption bound are
// executed. Oracle: return values and end state (request window with bodies, backlog, buffered
// bytes) equal those of some sequential order, and the buffered-bytes counter equals the sum of
// the bodies actually buffered.

import (
	"encoding/json"
	"fmt"
	"strings"

	"github.com/tokenized/spynode/internal/state"
	"github.com/tokenized/spynode/internal/verif/core"
	"github.com/tokenized/spynode/pkg/vrt"
)

type c13ConcScenario struct {
	Name  string     `json:"name"`
	Pre   []string   `json:"pre"`
	Progs [][]string `json:"progs"`
}

func c13ConcScenarios(thorough bool) []c13ConcScenario {
	ann := []string{"ann:B>T1", "ann:T1>T2", "ann:T2>T3"}
	scs := []c13ConcScenario{
		{"deliver || clear all", ann, [][]string{{"add:T2"}, {"clear"}}},
		{"deliver || clear after the first request", ann, [][]string{{"add:T2"}, {"clearafter:T1"}}},
		{"deliver || reset", ann, [][]string{{"add:T3"}, {"reset"}}},
		{"deliver twice || pop", append(append([]string{}, ann...), "add:T1"), [][]string{{"add:T1"}, {"pop"}}},
		{"deliver, deliver || pop, pop", ann, [][]string{{"add:T1", "add:T2"}, {"pop", "pop"}}},
		{"two peers deliver the same body || clear after", ann, [][]string{{"add:T2"}, {"add:T2"}, {"clearafter:T1"}}},
	}
	if thorough {
		scs = append(scs,
			c13ConcScenario{"deliver x3 || pop, clear || next-request", ann, [][]string{{"add:T1", "add:T2", "add:T3"}, {"pop", "clear"}, {"nextreq"}}},
			c13ConcScenario{"deliver || clear after || pop", append(append([]string{}, ann...), "add:T1"), [][]string{{"add:T2", "add:T3"}, {"clearafter:T2"}, {"pop", "pop"}}},
		)
	}
	return scs
}

type c13ConcInst struct {
	st  *state.State
	out [][]string // per thread: results
}

func newC13ConcInst(sc c13ConcScenario) *c13ConcInst {
	in := &c13ConcInst{st: state.NewState(), out: make([][]string, len(sc.Progs))}
	in.st.SetLastHash(c13T.hash["B"])
	for _, op := range sc.Pre {
		in.do(-1, op)
	}
	return in
}

func (in *c13ConcInst) do(t int, op string) {
	ctx := core.Ctx()
	p := strings.Split(op, ":")
	res := ""
	switch p[0] {
	case "ann":
		e := strings.Split(p[1], ">")
		prev, name := c13T.hash[e[0]], c13T.hash[e[1]]
		send, err := in.st.AddBlockRequest(&prev, &name)
		res = fmt.Sprintf("%v/%v", send, err != nil)
	case "add":
		h := c13T.hash[p[1]]
		res = fmt.Sprint(in.st.AddBlock(&h, &fakeBlock{hdr: c13T.hdr[p[1]], size: 1000}))
	case "pop":
		b := in.st.NextBlock()
		res = "nil"
		if b != nil {
			hd := b.GetHeader()
			res = hashName(hd.BlockHash())
		}
	case "clear":
		in.st.ClearBlockRequests(ctx)
	case "clearafter":
		in.st.ClearBlockRequestsAfter(ctx, c13T.hash[p[1]])
	case "reset":
		in.st.Reset()
	case "nextreq":
		h, _ := in.st.GetNextBlockToRequest()
		res = "nil"
		if h != nil {
			res = hashName(h)
		}
	}
	if t >= 0 {
		in.out[t] = append(in.out[t], op+"="+res)
	}
}

// view: results + request window (name, body buffered) + backlog + counter; bad: counter mismatch.
func (in *c13ConcInst) view() (string, string) {
	var sb strings.Builder
	for t, o := range in.out {
		fmt.Fprintf(&sb, "T%d[%s] ", t, strings.Join(o, " "))
	}
	sum := int64(0)
	if f, ok := core.Field(in.st, "blocksRequested"); ok {
		sb.WriteString("win=")
		for i := 0; i < f.Len(); i++ {
			e := f.Index(i)
			for e.Kind().String() == "ptr" {
				e = e.Elem()
			}
			var h [32]byte
			hv := e.FieldByName("hash")
			for j := 0; j < 32; j++ {
				h[j] = byte(hv.Index(j).Uint())
			}
			name := "?"
			for n, x := range c13T.hash {
				if x == h {
					name = n
				}
			}
			body := !e.FieldByName("block").IsNil()
			if body {
				sum += e.FieldByName("size").Int()
			}
			fmt.Fprintf(&sb, "%s:%v,", name, body)
		}
	}
	fmt.Fprintf(&sb, " backlog=%d", in.st.BlocksToRequestCount())
	bad := ""
	if f, ok := core.Field(in.st, "pendingBlockSize"); ok && f.CanInt() {
		fmt.Fprintf(&sb, " buffered=%d", f.Int())
		if f.Int() != sum {
			bad = fmt.Sprintf("buffered-bytes counter is %d but the bodies buffered in the window add up to %d", f.Int(), sum)
		}
	}
	return sb.String(), bad
}

func c13ConcOne(rep *core.Report, sc c13ConcScenario, bound int, replay []int) concStats {
	allowed := map[string]bool{}
	for _, m := range mergesTagged(sc.Progs) {
		in := newC13ConcInst(sc)
		for _, to := range m {
			in.do(to.t, to.op)
		}
		v, bad := in.view()
		allowed[v] = true
		if bad != "" {
			rep.AddViolation(core.Violation{Property: "C13", Clause: "buffered-bytes-accounting", Class: "counter differs from the buffered bodies (sequential order)", Detail: bad, Witness: map[string]interface{}{"scenario": sc}})
		}
	}
	var cur *c13ConcInst
	spawn := func() {
		cur = newC13ConcInst(sc)
		in := cur
		for t, p := range sc.Progs {
			t, p := t, p
			vrt.Go(fmt.Sprintf("T%d", t), func() {
				for _, op := range p {
					in.do(t, op)
				}
			})
		}
	}
	each := func(x *concExec) {
		wit := map[string]interface{}{"kind": "c13conc", "scenario": sc, "choices": x.choices, "schedule": x.schedule}
		if x.deadlock {
			rep.AddViolation(core.Violation{Property: "C13", Clause: "concurrent-ops-atomic", Class: "deadlock", Detail: joinProgs(sc.Progs), Witness: wit})
			return
		}
		for _, p := range x.panics {
			rep.AddViolation(core.Violation{Property: "C13", Clause: "concurrent-ops-atomic", Class: "panic", Detail: p, Witness: wit})
			return
		}
		v, bad := cur.view()
		h := core.Hash20Of(v)
		rep.Outcome(fmt.Sprintf("conc %x", h[:3]))
		if bad != "" {
			rep.AddViolation(core.Violation{Property: "C13", Clause: "buffered-bytes-accounting", Class: "counter differs from the buffered bodies after concurrent " + opKinds(sc.Progs), Detail: bad + " - scenario " + sc.Name + ": " + v, Witness: wit})
		}
		if !allowed[v] {
			rep.AddViolation(core.Violation{Property: "C13", Clause: "concurrent-ops-atomic", Class: "results and end state of concurrent " + opKinds(sc.Progs) + " equal no sequential order of the operations",
				Detail: fmt.Sprintf("scenario %q (%s): %s; sequential orders allow %d outcomes", sc.Name, joinProgs(sc.Progs), v, len(allowed)), Witness: wit})
		}
	}
	if replay != nil {
		concLenient = true
		x := concRun(spawn, replay)
		concLenient = false
		each(x)
		return concStats{Executions: 1, Points: len(x.points)}
	}
	return concExplore(spawn, bound, 400000, each)
}

type taggedOp struct {
	t  int
	op string
}

// mergesTagged: every order-preserving merge of the programs, remembering the thread of each op.
func mergesTagged(progs [][]string) [][]taggedOp {
	var out [][]taggedOp
	idx := make([]int, len(progs))
	var cur []taggedOp
	var rec func()
	rec = func() {
		done := true
		for t := range progs {
			if idx[t] < len(progs[t]) {
				done = false
				cur = append(cur, taggedOp{t, progs[t][idx[t]]})
				idx[t]++
				rec()
				idx[t]--
				cur = cur[:len(cur)-1]
			}
		}
		if done {
			out = append(out, append([]taggedOp(nil), cur...))
		}
	}
	rec()
	return out
}

func c13Conc(rep *core.Report) {
	bound := 2
	if rep.Thorough() {
		bound = -1
	}
	execs, points, n := 0, 0, 0
	for _, sc := range c13ConcScenarios(rep.Thorough()) {
		n++
		st := c13ConcOne(rep, sc, bound, nil)
		execs += st.Executions
		points += st.Points
		if st.Capped {
			rep.Exhaustive = false
			rep.Coverage["conc_cap_hit"] = sc.Name
		}
	}
	addInt(rep, "states", execs)
	addInt(rep, "transitions", points)
	addInt(rep, "traces_validated_against_impl", execs)
	rep.Coverage["conc_scenarios"] = n
	rep.Coverage["conc_executions"] = execs
	rep.Coverage["conc_scheduling_points"] = points
	rep.Coverage["conc_preemption_bound"] = bound
	rep.Coverage["conc_rule"] = "request-state interleavings: 2-3 threads running deliver / pop / clear / clear-after / reset / next-request programs on the real state.State, every mutex operation a scheduling point, all interleavings with at most conc_preemption_bound pre-emptions (-1 = all); return values and end state must equal those of some sequential order and the buffered-bytes counter the sum of the buffered bodies"
}

func init() {
	concReplayers["c13conc"] = func(prop string, wit json.RawMessage) []core.Violation {
		var w struct {
			Scenario c13ConcScenario `json:"scenario"`
			Choices  []int           `json:"choices"`
		}
		json.Unmarshal(wit, &w)
		rep := core.NewReport(prop, "model_checking")
		c13ConcOne(rep, w.Scenario, 0, w.Choices)
		return rep.Violations
	}
}
