//go:build verif

package checks

import (
	"fmt"

	"github.com/tokenized/pkg/bitcoin"
	"github.com/tokenized/pkg/wire"
	"github.com/tokenized/spynode/internal/verif/core"
)

// oracleBlockFetch (C13, node level): judges the timestamped getdata(block) messages the node sent
// on its trusted connections and the HandleHeaders callbacks (= blocks processed).
func (w *World) oracleBlockFetch() {
	type req struct {
		name string
		at   int64
		conn int
	}
	processedAt := map[string]int64{}
	var procOrder []string
	for _, e := range w.H[0].events {
		if e.Kind == "headers" {
			if n, ok := w.Tree.byHash[e.Hash]; ok {
				if _, dup := processedAt[n]; !dup {
					processedAt[n] = e.At
				}
				procOrder = append(procOrder, n)
				// (d) nothing is processed from a branch the peer had abandoned before
				if off, ok := w.offBestAt[n]; ok && off < e.At && !w.onBest(n) {
					w.fail("C13", "abandoned-requests-discarded", "a block of the abandoned branch was processed after the fork had been announced",
						fmt.Sprintf("block %s was dropped from the peer's best chain at %d ms (fork announced then) and processed at %d ms", n, off/1e6, e.At/1e6))
					return
				}
			}
		}
	}
	var reqs []req
	for ci, pc := range w.PConns {
		seen := map[string]bool{}
		for i, m := range pc.recvLog {
			gd, ok := m.(*wire.MsgGetData)
			if !ok {
				continue
			}
			for _, iv := range gd.InvList {
				if iv.Type != wire.InvTypeBlock {
					continue
				}
				n, ok := w.Tree.byHash[iv.Hash]
				if !ok {
					w.fail("C13", "requests-announced-blocks", "block requested that the peer never announced", iv.Hash.String())
					return
				}
				at := pc.recvAt[i]
				// (b) at most once per connection unless its branch was abandoned
				if seen[n] {
					if _, off := w.offBestAt[n]; !off {
						w.fail("C13", "requested-once-per-connection", "block requested twice on one connection although its branch was never abandoned",
							fmt.Sprintf("block %s requested again at %d ms on connection %d", n, at/1e6, ci))
						return
					}
				}
				seen[n] = true
				reqs = append(reqs, req{n, at, ci})
			}
		}
	}
	// (a) chain order: the parent of a requested block was requested earlier or is already processed / part of the boot chain
	early := map[string]bool{}
	for i, r := range reqs {
		b := w.Tree.blocks[r.name]
		par := b.parent
		_, parProcessed := processedAt[par]
		parBoot := w.Tree.blocks[par] != nil && w.Tree.blocks[par].height <= w.cfg.InitialChain && w.bootTrunk(par)
		if !early[par] && !parProcessed && !parBoot {
			w.fail("C13", "requested-in-chain-order", "block requested before its parent",
				fmt.Sprintf("request %d is block %s (height %d) but its parent %s was neither requested before nor processed", i, r.name, b.height, par))
			return
		}
		early[r.name] = true
		// (c) never more than ten requested-but-unprocessed blocks outstanding (cleared = abandoned ones do not count)
		out := 0
		for _, q := range reqs[:i+1] {
			if q.conn != r.conn {
				continue // requests of an earlier connection were reset with it
			}
			if pa, ok := processedAt[q.name]; ok && pa <= r.at {
				continue
			}
			if off, ok := w.offBestAt[q.name]; ok && off <= r.at {
				continue
			}
			out++
		}
		if out > 10 {
			w.fail("C13", "window-of-ten", fmt.Sprintf("%d blocks requested and not processed", out),
				fmt.Sprintf("at %d ms (request of %s) %d requested blocks were outstanding on connection %d", r.at/1e6, r.name, out, r.conn))
			return
		}
	}
	// processed strictly in chain order: every processed block's parent was processed before it or is a boot block
	done := map[string]bool{}
	for _, n := range procOrder {
		par := w.Tree.blocks[n].parent
		if !done[par] && !(w.Tree.blocks[par] != nil && w.bootTrunk(par)) {
			if _, ok := processedAt[par]; !ok {
				w.fail("C13", "processed-in-order", "block processed before its parent", fmt.Sprintf("block %s processed, parent %s never", n, par))
				return
			}
		}
		done[n] = true
	}
}

func (w *World) onBest(n string) bool {
	b := w.Tree.blocks[n]
	return b != nil && b.height < len(w.Best) && w.Best[b.height] == n
}

// bootTrunk: the block belongs to the chain the peer had when the node booted (held before any explored event).
func (w *World) bootTrunk(n string) bool {
	b := w.Tree.blocks[n]
	if b == nil {
		return n == "g"
	}
	return b.height <= w.cfg.InitialChain && b.boot
}

// oracleWindowRequested (C13): every block in the node's download window (requested-but-unprocessed
// list of the request state) has actually been asked for on the current trusted connection - a
// window entry nobody was asked for can never be filled, and the window is processed in order.
func (w *World) oracleWindowRequested() {
	if w.P == nil || w.Node == nil {
		return
	}
	f, ok := core.Field(w.Node, "state", "blocksRequested")
	if !ok {
		return
	}
	asked := map[bitcoin.Hash32]bool{}
	for _, m := range w.P.recvLog {
		if gd, ok := m.(*wire.MsgGetData); ok {
			for _, iv := range gd.InvList {
				if iv.Type == wire.InvTypeBlock {
					asked[iv.Hash] = true
				}
			}
		}
	}
	for i := 0; i < f.Len(); i++ {
		e := f.Index(i)
		for e.Kind().String() == "ptr" {
			e = e.Elem()
		}
		var h bitcoin.Hash32
		hv := e.FieldByName("hash")
		for j := 0; j < 32; j++ {
			h[j] = byte(hv.Index(j).Uint())
		}
		if !asked[h] {
			w.fail("C13", "window-entries-requested", "a block sits in the download window although it was never requested from the peer",
				fmt.Sprintf("window entry %d (%s) has no getdata on connection %d", i, w.Tree.byHash[h], w.P.gen))
			return
		}
	}
}
