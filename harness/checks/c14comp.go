//go:build verif

package checks

// C14, component part on the real TxTracker + MemPool:
//  (1) batches: one periodic Check that has to re-request n announced txids (n around the 100 per
//      message batching) through a transmitter that, like the node's outgoing queue, keeps the
//      message it is handed and serialises it later - every txid must be asked for exactly once;
//  (2) interleavings: a connection's Check running concurrently with the block processor's
//      clean-up of a confirmed txid (mempool removal + RemoveList) and with a new announcement, all
//      interleavings within the pre-emption bound; afterwards, a full request window later, the
//      next Check must not ask for the confirmed transaction.

import (
	"encoding/json"
	"fmt"
	"sort"
	"strings"
	"time"

	"github.com/tokenized/pkg/bitcoin"
	"github.com/tokenized/pkg/wire"
	"github.com/tokenized/spynode/internal/state"
	"github.com/tokenized/spynode/internal/verif/core"
	"github.com/tokenized/spynode/pkg/vrt"
)

// queueTransmitter models Node.TransmitMessage: the message (pointer) is queued, a sender
// serialises it later.
type queueTransmitter struct {
	queued []wire.Message
}

func (q *queueTransmitter) TransmitMessage(m wire.Message) bool {
	q.queued = append(q.queued, m)
	return true
}

// sent: what reaches the peer when the sender gets to the queued messages.
func (q *queueTransmitter) sent() [][]bitcoin.Hash32 {
	var out [][]bitcoin.Hash32
	for _, m := range q.queued {
		gd, ok := m.(*wire.MsgGetData)
		if !ok {
			continue
		}
		var l []bitcoin.Hash32
		for _, iv := range gd.InvList {
			l = append(l, iv.Hash)
		}
		out = append(out, l)
	}
	return out
}

func c14Txid(i int) bitcoin.Hash32 {
	var h bitcoin.Hash32
	h[0], h[1], h[2], h[31] = byte(i), byte(i>>8), 0x14, 0xc1
	return h
}

func c14Batches(rep *core.Report) {
	ctx := core.Ctx()
	sizes := []int{1, 2, 99, 100, 101, 102, 150, 203}
	if rep.Thorough() {
		sizes = append(sizes, 305, 1000, 2500)
	}
	for _, n := range sizes {
		vrt.PassNow = 0
		mp := state.NewMemPool()
		tr := state.NewTxTracker()
		for i := 0; i < n; i++ {
			id := c14Txid(i)
			mp.AddRequest(ctx, id, false) // asked from the peer that announced it first
			tr.Add(id)                    // this connection announced it too
		}
		q := &queueTransmitter{}
		vrt.PassNow += int64(1 * time.Second)
		tr.Check(ctx, mp, q) // inside the window: nothing may be asked
		if got := q.sent(); len(got) != 0 {
			rep.AddViolation(core.Violation{Property: "C14", Clause: "one-request-per-window", Class: "re-request inside the 3 s window (tracker check)", Detail: fmt.Sprintf("n=%d: %d messages", n, len(got)), Witness: map[string]interface{}{"n": n}})
			continue
		}
		vrt.PassNow += int64(2200 * time.Millisecond)
		tr.Check(ctx, mp, q) // window expired: every txid is asked from this connection, once
		count := map[bitcoin.Hash32]int{}
		msgs := q.sent()
		for _, l := range msgs {
			for _, h := range l {
				count[h]++
			}
		}
		missing, dup := 0, 0
		for i := 0; i < n; i++ {
			switch c := count[c14Txid(i)]; {
			case c == 0:
				missing++
			case c > 1:
				dup++
			}
		}
		if missing > 0 || dup > 0 {
			cls := "txids of one periodic check are requested more than once"
			if dup == 0 {
				cls = "txids dropped from the tracker without being requested"
			} else if missing > 0 {
				cls += " and others never"
			}
			rep.AddViolation(core.Violation{Property: "C14", Clause: "re-request-after-window", Class: cls,
				Detail:  fmt.Sprintf("%d announced txids whose first request expired: the %d getdata messages queued by one Check, as serialised afterwards, ask for %d txids twice or more and never for %d", n, len(msgs), dup, missing),
				Witness: map[string]interface{}{"n": n}})
		}
		// a third check right away must not ask again (requests are active again)
		q2 := &queueTransmitter{}
		tr.Check(ctx, mp, q2)
		if len(q2.sent()) != 0 {
			rep.AddViolation(core.Violation{Property: "C14", Clause: "one-request-per-window", Class: "second request right after the re-request", Detail: fmt.Sprintf("n=%d", n), Witness: map[string]interface{}{"n": n}})
		}
		rep.Outcome(fmt.Sprintf("batch msgs=%d", len(msgs)))
	}
	rep.Coverage["batch_sizes"] = sizes
}

type c14ConcScenario struct {
	Name  string     `json:"name"`
	Progs [][]string `json:"progs"` // check | confirm:<i> | announce:<i> | remove:<i>
}

func c14ConcScenarios() []c14ConcScenario {
	scs := c14ConcScenariosRaw()
	// the block processor's handling of a confirmed tx is two separately locked steps
	for i := range scs {
		for t, p := range scs[i].Progs {
			var q []string
			for _, op := range p {
				if strings.HasPrefix(op, "confirm:") {
					n := strings.TrimPrefix(op, "confirm:")
					q = append(q, "mprm:"+n, "rmlist:"+n)
				} else {
					q = append(q, op)
				}
			}
			scs[i].Progs[t] = q
		}
	}
	return scs
}

func c14ConcScenariosRaw() []c14ConcScenario {
	return []c14ConcScenario{
		{"check || block confirms the tracked tx", [][]string{{"check"}, {"confirm:0"}}},
		{"check || block confirms one of two tracked txs", [][]string{{"check"}, {"confirm:1"}}},
		{"check || confirm || new announcement", [][]string{{"check"}, {"confirm:0"}, {"announce:2"}}},
		{"check, check || confirm, confirm", [][]string{{"check", "check"}, {"confirm:0", "confirm:1"}}},
		{"check || tx body arrives (remove)", [][]string{{"check"}, {"remove:0"}}},
	}
}

type c14ConcInst struct {
	mp *state.MemPool
	tr *state.TxTracker
	q  *queueTransmitter
}

func newC14ConcInst() *c14ConcInst {
	ctx := core.Ctx()
	in := &c14ConcInst{mp: state.NewMemPool(), tr: state.NewTxTracker(), q: &queueTransmitter{}}
	for i := 0; i < 2; i++ {
		id := c14Txid(i)
		in.mp.AddRequest(ctx, id, false) // requested from another peer, window running
		in.tr.Add(id)
	}
	return in
}

func (in *c14ConcInst) do(op string) {
	ctx := core.Ctx()
	p := strings.Split(op, ":")
	i := 0
	if len(p) > 1 {
		fmt.Sscan(p[1], &i)
	}
	id := c14Txid(i)
	switch p[0] {
	case "check":
		in.tr.Check(ctx, in.mp, in.q)
	case "mprm": // block processing, step 1 for a confirmed tx: out of the mempool
		in.mp.RemoveTransaction(id)
	case "rmlist": // block processing, step 2 (CleanupBlock): every connection's tracker forgets it
		in.tr.RemoveList(ctx, []*bitcoin.Hash32{&id})
	case "announce":
		if _, req := in.mp.AddRequest(ctx, id, false); !req {
			in.tr.Add(id)
		}
	case "remove":
		in.tr.Remove(ctx, id)
	}
}

// view: what was asked during the concurrent phase, what is still tracked, and what the next
// Check asks for once the request window has passed.
func (in *c14ConcInst) view(now func() int64, advance func(int64)) string {
	ctx := core.Ctx()
	names := func(ls [][]bitcoin.Hash32) string {
		var out []string
		for _, l := range ls {
			for _, h := range l {
				out = append(out, fmt.Sprint(int(h[0])))
			}
		}
		sort.Strings(out)
		return strings.Join(out, ",")
	}
	during := names(in.q.sent())
	tracked := 0
	if f, ok := core.Field(in.tr, "txids"); ok {
		tracked = f.Len()
	}
	advance(int64(3100 * time.Millisecond))
	q2 := &queueTransmitter{}
	in.tr.Check(ctx, in.mp, q2)
	return fmt.Sprintf("during=[%s] tracked=%d later=[%s]", during, tracked, names(q2.sent()))
}

func c14ConcOne(rep *core.Report, sc c14ConcScenario, bound int, replay []int) concStats {
	confirmed := map[string]bool{}
	for _, p := range sc.Progs {
		for _, op := range p {
			if strings.HasPrefix(op, "rmlist:") {
				confirmed[strings.TrimPrefix(op, "rmlist:")] = true
			}
		}
	}
	allowed := map[string]bool{}
	for _, m := range merges(sc.Progs) {
		vrt.PassNow = int64(time.Second)
		in := newC14ConcInst()
		for _, op := range m {
			in.do(op)
		}
		allowed[in.view(func() int64 { return vrt.PassNow }, func(d int64) { vrt.PassNow += d })] = true
	}
	var cur *c14ConcInst
	spawn := func() {
		vrt.S.Now = int64(time.Second)
		cur = newC14ConcInst()
		in := cur
		for t, p := range sc.Progs {
			p := p
			vrt.Go(fmt.Sprintf("T%d", t), func() {
				for _, op := range p {
					in.do(op)
				}
			})
		}
	}
	each := func(x *concExec) {
		wit := map[string]interface{}{"kind": "c14conc", "scenario": sc, "choices": x.choices, "schedule": x.schedule}
		if x.deadlock {
			rep.AddViolation(core.Violation{Property: "C14", Clause: "concurrent-ops-atomic", Class: "deadlock", Detail: joinProgs(sc.Progs), Witness: wit})
			return
		}
		for _, p := range x.panics {
			rep.AddViolation(core.Violation{Property: "C14", Clause: "concurrent-ops-atomic", Class: "panic", Detail: p, Witness: wit})
			return
		}
		// the scheduler of this execution is gone; the follow-up Check runs sequentially on the pass-through clock
		vrt.PassNow = int64(time.Second)
		v := cur.view(func() int64 { return vrt.PassNow }, func(d int64) { vrt.PassNow += d })
		rep.Outcome("conc " + v)
		if i := strings.Index(v, "later=["); i >= 0 {
			for _, n := range strings.Split(strings.TrimSuffix(v[i+7:], "]"), ",") {
				if confirmed[n] {
					rep.AddViolation(core.Violation{Property: "C14", Clause: "confirmed-forgotten", Class: "a tx confirmed in a processed block is requested again by a later check (concurrent " + opKinds(sc.Progs) + ")",
						Detail: fmt.Sprintf("scenario %q: %s", sc.Name, v), Witness: wit})
					return
				}
			}
		}
		if !allowed[v] {
			rep.AddViolation(core.Violation{Property: "C14", Clause: "concurrent-ops-atomic", Class: "outcome of concurrent " + opKinds(sc.Progs) + " equals no sequential order of the operations",
				Detail: fmt.Sprintf("scenario %q (%s): %s; sequential orders allow %d outcomes", sc.Name, joinProgs(sc.Progs), v, len(allowed)), Witness: wit})
		}
	}
	if replay != nil {
		concLenient = true
		x := concRun(spawn, replay)
		concLenient = false
		each(x)
		return concStats{Executions: 1, Points: len(x.points)}
	}
	return concExplore(spawn, bound, 400000, each)
}

func c14Component(rep *core.Report) {
	c14Batches(rep)
	bound := 2
	if rep.Thorough() {
		bound = -1
	}
	execs, points := 0, 0
	for _, sc := range c14ConcScenarios() {
		st := c14ConcOne(rep, sc, bound, nil)
		execs += st.Executions
		points += st.Points
		if st.Capped {
			rep.Exhaustive = false
			rep.Coverage["conc_cap_hit"] = sc.Name
		}
	}
	addInt(rep, "states", execs)
	addInt(rep, "transitions", points)
	addInt(rep, "traces_validated_against_impl", execs)
	rep.Coverage["conc_scenarios"] = len(c14ConcScenarios())
	rep.Coverage["conc_executions"] = execs
	rep.Coverage["conc_scheduling_points"] = points
	rep.Coverage["conc_preemption_bound"] = bound
	rep.Coverage["conc_rule"] = "tracker interleavings: a connection's TxTracker.Check concurrent with block clean-up (MemPool.RemoveTransaction + RemoveList), a new announcement, a body arrival; every mutex / atomic operation a scheduling point, all interleavings with at most conc_preemption_bound pre-emptions (-1 = all); what is requested during the run, what stays tracked and what the next check (3.1 s later) requests must equal some sequential order, and a confirmed txid is never requested afterwards. Batches: one Check over n tracked expired txids for n around the 100-per-message batching, messages read when the sender would serialise them: every txid exactly once"
}

func init() {
	concReplayers["c14conc"] = func(prop string, wit json.RawMessage) []core.Violation {
		var w struct {
			Scenario c14ConcScenario `json:"scenario"`
			Choices  []int           `json:"choices"`
		}
		json.Unmarshal(wit, &w)
		rep := core.NewReport(prop, "model_checking")
		c14ConcOne(rep, w.Scenario, 0, w.Choices)
		return rep.Violations
	}
}
