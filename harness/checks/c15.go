//go:build verif

package checks

import (
	"bytes"
	"encoding/json"
	"fmt"
	"reflect"
	"sort"
	"strings"
	"time"

	"github.com/tokenized/pkg/bitcoin"
	"github.com/tokenized/pkg/expanded_tx"
	"github.com/tokenized/pkg/merchant_api"
	"github.com/tokenized/pkg/merkle_proof"
	"github.com/tokenized/pkg/wire"
	"github.com/tokenized/spynode/internal/verif/core"
	"github.com/tokenized/spynode/pkg/client"
)

// C15: client wire codec round trip / framing, bounded-exhaustive over boundary values per field
// (DESIGN §4 C15). The corpus is shared with C20.

type c15Case struct {
	Name string
	P    client.MessagePayload
}

var c15Varints = []uint64{0, 1, 0xfc, 0xfd, 0xffff, 0x10000, 0xffffffff, 0x100000000, 0xffffffffffffffff}

func c15Hash(b byte) bitcoin.Hash32 {
	var h bitcoin.Hash32
	for i := range h {
		h[i] = b + byte(i)
	}
	return h
}

func c15Tx(nIn, nOut int, scriptLen int) *wire.MsgTx {
	tx := wire.NewMsgTx(1)
	for i := 0; i < nIn; i++ {
		op := wire.OutPoint{Hash: c15Hash(byte(0x20 + i)), Index: uint32(i * 7)}
		tx.AddTxIn(wire.NewTxIn(&op, bytes.Repeat([]byte{byte(0x51 + i)}, scriptLen)))
	}
	for i := 0; i < nOut; i++ {
		tx.AddTxOut(wire.NewTxOut(uint64(1000*i+1), bytes.Repeat([]byte{byte(0x61 + i)}, scriptLen+i)))
	}
	return tx
}

func c15Header(i int) wire.BlockHeader {
	return core.MakeHeader(c15Hash(byte(i)), i, uint32(i*3), c15Hash(byte(0x80+i)))
}

func c15Proofs() []*client.MerkleProof {
	return []*client.MerkleProof{
		nil,
		{Index: 0, BlockHeader: c15Header(1)},
		{Index: 0xfd, Path: []bitcoin.Hash32{c15Hash(1)}, BlockHeader: c15Header(2), DuplicatedIndexes: []uint64{}},
		{Index: 0x100000000, Path: []bitcoin.Hash32{c15Hash(1), c15Hash(2), c15Hash(3)}, BlockHeader: c15Header(3), DuplicatedIndexes: []uint64{1}},
		{Index: 5, Path: []bitcoin.Hash32{c15Hash(4)}, BlockHeader: c15Header(4), DuplicatedIndexes: []uint64{1, 2, 0xffff}},
	}
}

func c15States() []client.TxState {
	var out []client.TxState
	for _, mp := range c15Proofs() {
		for f := 0; f < 8; f++ {
			for _, d := range []uint32{0, 1, 0xffffffff} {
				if f != 0 && f != 7 && d != 1 && mp != nil {
					continue // keep the product small: full flag product only on a few combinations
				}
				out = append(out, client.TxState{Safe: f&1 != 0, UnSafe: f&2 != 0, Cancelled: f&4 != 0, UnconfirmedDepth: d, MerkleProof: mp})
			}
		}
	}
	return out
}

func c15Key() (bitcoin.Key, bitcoin.PublicKey, bitcoin.Signature) {
	k, err := bitcoin.KeyFromNumber(bytes.Repeat([]byte{0x11}, 32), bitcoin.MainNet)
	if err != nil {
		panic(err)
	}
	sig, err := k.Sign(c15Hash(9))
	if err != nil {
		panic(err)
	}
	return k, k.PublicKey(), sig
}

func uint32s(vals ...uint64) []uint32 {
	out := make([]uint32, len(vals))
	for i, v := range vals {
		out[i] = uint32(v)
	}
	return out
}

// c15Corpus builds the values: per type the product of boundary domains of its fields.
func c15Corpus(thorough bool) []c15Case {
	var out []c15Case
	add := func(name string, p client.MessagePayload) { out = append(out, c15Case{name, p}) }
	_, pk, sig := c15Key()
	h1, h2 := c15Hash(1), c15Hash(0xf0)
	idxLists := [][]uint32{nil, {0}, {1, 0xfc}, uint32s(0xfd, 0xffff, 0x10000, 0xffffffff)}
	long := make([]uint32, 253)
	for i := range long {
		long[i] = uint32(i)
	}
	idxLists = append(idxLists, long)
	pushLists := [][][]byte{nil, {{}}, {{1}}, {bytes.Repeat([]byte{2}, 20), bytes.Repeat([]byte{3}, 0xfc)}, {bytes.Repeat([]byte{4}, 0xfd), {}, bytes.Repeat([]byte{5}, 0x1000)}}
	many := make([][]byte, 253)
	for i := range many {
		many[i] = []byte{byte(i)}
	}
	pushLists = append(pushLists, many)
	outLists := [][]*wire.OutPoint{nil, {{Hash: h1, Index: 0}}, {{Hash: h1, Index: 0xffffffff}, {Hash: h2, Index: 0xfd}}}
	txs := []*wire.MsgTx{c15Tx(0, 0, 0), c15Tx(1, 1, 0), c15Tx(1, 2, 3), c15Tx(2, 1, 0xfd), c15Tx(2, 2, 76)}

	for _, v := range []uint8{0, 1, 255} {
		for _, sh := range []uint32{0, 12345, 0xffffffff} {
			for _, ct := range []client.ConnectionType{0, 1, 255} {
				add("Register", &client.Register{Version: v, Key: pk, Hash: h1, StartBlockHeight: sh, ChainTip: h2, ConnectionType: ct, Signature: sig})
			}
		}
	}
	for _, l := range pushLists {
		add("SubscribePushData", &client.SubscribePushData{PushDatas: l})
		add("UnsubscribePushData", &client.UnsubscribePushData{PushDatas: l})
	}
	for _, l := range idxLists {
		add("SubscribeTx", &client.SubscribeTx{TxID: h1, Indexes: l})
		add("UnsubscribeTx", &client.UnsubscribeTx{TxID: h2, Indexes: l})
	}
	for _, l := range outLists {
		add("SubscribeOutputs", &client.SubscribeOutputs{Outputs: l})
		add("UnsubscribeOutputs", &client.UnsubscribeOutputs{Outputs: l})
	}
	add("SubscribeHeaders", &client.SubscribeHeaders{})
	add("UnsubscribeHeaders", &client.UnsubscribeHeaders{})
	add("SubscribeContracts", &client.SubscribeContracts{})
	add("UnsubscribeContracts", &client.UnsubscribeContracts{})
	for _, v := range c15Varints {
		add("Ready", &client.Ready{NextMessageID: v})
		add("Ping", &client.Ping{TimeStamp: v})
		add("Pong", &client.Pong{RequestTimeStamp: v, TimeStamp: ^v})
	}
	add("GetChainTip", &client.GetChainTip{})
	for _, rh := range []int32{-1, 0, 1, 0x7fffffff, -0x80000000} {
		for _, mc := range []uint32{0, 1, 0xfd, 0xffffffff} {
			add("GetHeaders", &client.GetHeaders{RequestHeight: rh, MaxCount: mc})
		}
	}
	for _, tx := range txs {
		for _, l := range idxLists[:4] {
			add("SendTx", &client.SendTx{Tx: tx, Indexes: l})
		}
		add("BaseTx", &client.BaseTx{Tx: tx})
	}
	for _, tx := range txs[1:] {
		etxs := []*expanded_tx.ExpandedTx{{Tx: tx}, {Tx: tx, Ancestors: expanded_tx.AncestorTxs{{Tx: txs[1]}}}}
		for _, etx := range etxs {
			for _, l := range idxLists[:3] {
				add("SendExpandedTx", &client.SendExpandedTx{Tx: etx, Indexes: l})
			}
		}
	}
	add("SaveTxs", &client.SaveTxs{Txs: nil})
	add("SaveTxs", &client.SaveTxs{Txs: expanded_tx.AncestorTxs{{Tx: txs[1]}}})
	add("SaveTxs", &client.SaveTxs{Txs: expanded_tx.AncestorTxs{{Tx: txs[2]}, {Tx: txs[3], MerkleProofs: merkle_proof.MerkleProofs{merkle_proof.MockMerkleProofWithTxID(*txs[3].TxHash(), 5)}}}})
	add("GetTx", &client.GetTx{TxID: h1})
	add("GetHeader", &client.GetHeader{BlockHash: h2})
	add("GetFeeQuotes", &client.GetFeeQuotes{})
	add("PostMerkleProofs", &client.PostMerkleProofs{})
	add("PostMerkleProofs", &client.PostMerkleProofs{MerkleProofs: []*merkle_proof.MerkleProof{merkle_proof.MockMerkleProofWithTxID(h1, 1)}})
	add("PostMerkleProofs", &client.PostMerkleProofs{MerkleProofs: []*merkle_proof.MerkleProof{merkle_proof.MockMerkleProofWithTxID(h1, 7), merkle_proof.MockMerkleProofWithTxID(h2, 100)}})
	for _, ids := range [][]bitcoin.Hash20{nil, {{1}}, {{1}, {2}, {0xff}}} {
		add("ReprocessTx", &client.ReprocessTx{TxID: h1, ClientIDs: ids})
	}
	add("MarkHeaderInvalid", &client.MarkHeaderInvalid{BlockHash: h1})
	add("MarkHeaderNotInvalid", &client.MarkHeaderNotInvalid{BlockHash: h2})
	for _, a := range []uint64{0, 0xfd, 0xffffffffffffffff} {
		for _, b := range []uint64{0, 1, 0x100000000} {
			add("AcceptRegister", &client.AcceptRegister{Key: pk, PushDataCount: a, UTXOCount: b, MessageCount: a ^ b, Signature: sig})
		}
	}
	states := c15States()
	for i, st := range states {
		tx := txs[1+i%4]
		outs := make([]*wire.TxOut, len(tx.TxIn))
		for j := range outs {
			outs[j] = wire.NewTxOut(uint64(j)*0xfd, bytes.Repeat([]byte{byte(j)}, j*0xfd))
		}
		add("Tx", &client.Tx{ID: c15Varints[i%len(c15Varints)], Tx: tx, Outputs: outs, State: st})
		add("TxUpdate", &client.TxUpdate{ID: c15Varints[(i+3)%len(c15Varints)], TxID: h1, State: st})
	}
	add("InSync", &client.InSync{})
	for _, hgt := range []uint32{0, 0xfd, 0xffffffff} {
		add("ChainTip", &client.ChainTip{Height: hgt, Hash: h1})
		for _, pow := range []bool{false, true} {
			add("Header", &client.Header{Header: c15Header(int(hgt % 50)), BlockHeight: hgt, IsMostPOW: pow})
		}
	}
	for _, n := range []int{0, 1, 2, 253} {
		hs := make([]*wire.BlockHeader, n)
		for i := range hs {
			h := c15Header(i)
			hs[i] = &h
		}
		for _, rh := range []int32{-1, 0, 0x7fffffff} {
			add("Headers", &client.Headers{RequestHeight: rh, StartHeight: uint32(n) * 0xfd, Headers: hs})
		}
	}
	add("FeeQuotes", &client.FeeQuotes{})
	add("FeeQuotes", &client.FeeQuotes{FeeQuotes: merchant_api.FeeQuotes{{FeeType: merchant_api.FeeTypeStandard, MiningFee: merchant_api.Fee{Satoshis: 500, Bytes: 1000}, RelayFee: merchant_api.Fee{Satoshis: 250, Bytes: 1000}}}})
	add("FeeQuotes", &client.FeeQuotes{FeeQuotes: merchant_api.FeeQuotes{{FeeType: merchant_api.FeeTypeStandard, MiningFee: merchant_api.Fee{Satoshis: 0, Bytes: 0}}, {FeeType: merchant_api.FeeTypeData, MiningFee: merchant_api.Fee{Satoshis: 0xfd, Bytes: 0xffff}, RelayFee: merchant_api.Fee{Satoshis: 1 << 40, Bytes: 1 << 33}}}})
	for _, mt := range []uint64{0, client.MessageTypeSendTx, 0xfd, 0xffffffffffffffff} {
		for _, hp := range []*bitcoin.Hash32{nil, &h1} {
			add("Accept", &client.Accept{MessageType: mt, Hash: hp})
			for _, code := range []client.RejectCode{0, 3, 0xffffffff} {
				for _, msg := range []string{"", "x", strings.Repeat("m", 0xfd)} {
					add("Reject", &client.Reject{MessageType: mt, Hash: hp, Code: code, Message: msg})
				}
			}
		}
	}
	// lists longer than any pre-allocation clamp a decoder may use (256), really present in the bytes
	for _, n := range []int{256, 257, 300} {
		li := make([]uint32, n)
		lp := make([][]byte, n)
		lo := make([]*wire.OutPoint, n)
		lh := make([]*wire.BlockHeader, n)
		ids := make([]bitcoin.Hash20, n)
		path := make([]bitcoin.Hash32, n)
		dups := make([]uint64, n)
		mps := make([]*merkle_proof.MerkleProof, n)
		anc := make(expanded_tx.AncestorTxs, n)
		for i := 0; i < n; i++ {
			li[i] = uint32(i)
			lp[i] = []byte{byte(i), byte(i >> 8)}
			lo[i] = &wire.OutPoint{Hash: c15Hash(byte(i)), Index: uint32(i)}
			h := c15Header(i % 50)
			lh[i] = &h
			ids[i] = bitcoin.Hash20{byte(i), byte(i >> 8)}
			path[i] = c15Hash(byte(i))
			dups[i] = uint64(i)
			mps[i] = merkle_proof.MockMerkleProofWithTxID(c15Hash(byte(i)), 1+i%5)
			anc[i] = &expanded_tx.AncestorTx{Tx: txs[1]}
		}
		add("SubscribePushData", &client.SubscribePushData{PushDatas: lp})
		add("UnsubscribePushData", &client.UnsubscribePushData{PushDatas: lp})
		add("SubscribeTx", &client.SubscribeTx{TxID: h1, Indexes: li})
		add("UnsubscribeTx", &client.UnsubscribeTx{TxID: h2, Indexes: li})
		add("SubscribeOutputs", &client.SubscribeOutputs{Outputs: lo})
		add("UnsubscribeOutputs", &client.UnsubscribeOutputs{Outputs: lo})
		add("SendTx", &client.SendTx{Tx: txs[1], Indexes: li})
		add("SendExpandedTx", &client.SendExpandedTx{Tx: &expanded_tx.ExpandedTx{Tx: txs[2], Ancestors: anc}, Indexes: li})
		add("SaveTxs", &client.SaveTxs{Txs: anc})
		add("PostMerkleProofs", &client.PostMerkleProofs{MerkleProofs: mps})
		add("ReprocessTx", &client.ReprocessTx{TxID: h1, ClientIDs: ids})
		add("Headers", &client.Headers{RequestHeight: 7, StartHeight: 7, Headers: lh})
		mp := &client.MerkleProof{Index: uint64(n), Path: path, BlockHeader: c15Header(5), DuplicatedIndexes: dups}
		big := c15Tx(n, 2, 1)
		outs := make([]*wire.TxOut, n)
		for j := range outs {
			outs[j] = wire.NewTxOut(uint64(j), []byte{byte(j)})
		}
		add("Tx", &client.Tx{ID: uint64(n), Tx: big, Outputs: outs, State: client.TxState{Safe: true, MerkleProof: mp}})
		add("TxUpdate", &client.TxUpdate{ID: uint64(n), TxID: h2, State: client.TxState{UnSafe: true, MerkleProof: mp}})
		fq := make(merchant_api.FeeQuotes, n)
		for i := range fq {
			fq[i] = &merchant_api.FeeQuote{FeeType: merchant_api.FeeTypeStandard, MiningFee: merchant_api.Fee{Satoshis: uint64(i), Bytes: 1000}, RelayFee: merchant_api.Fee{Satoshis: 1, Bytes: uint64(i)}}
		}
		add("FeeQuotes", &client.FeeQuotes{FeeQuotes: fq})
	}
	// a coinbase transaction (input index 0xffffffff, zero hash) with its placeholder spent output, confirmed
	{
		cb := wire.NewMsgTx(1)
		cbop := wire.OutPoint{Index: wire.MaxPrevOutIndex}
		cb.AddTxIn(wire.NewTxIn(&cbop, []byte{3, 1, 2, 3}))
		cb.AddTxOut(wire.NewTxOut(5000000000, bytes.Repeat([]byte{0x51}, 25)))
		mp := &client.MerkleProof{Index: 0, Path: []bitcoin.Hash32{c15Hash(7)}, BlockHeader: c15Header(6), DuplicatedIndexes: []uint64{}}
		add("Tx", &client.Tx{ID: 9, Tx: cb, Outputs: []*wire.TxOut{wire.NewTxOut(0, nil)}, State: client.TxState{Safe: true, MerkleProof: mp}})
		add("Tx", &client.Tx{ID: 10, Tx: cb, Outputs: []*wire.TxOut{wire.NewTxOut(0, nil)}, State: client.TxState{UnconfirmedDepth: 1}})
		add("BaseTx", &client.BaseTx{Tx: cb})
		add("SendTx", &client.SendTx{Tx: cb, Indexes: []uint32{0}})
	}
	// text that is not one byte per character
	for _, msg := range []string{"é", "naïve – “quoted”", "日本語のエラー", "emoji 😀 ok", strings.Repeat("ü", 0xfd), strings.Repeat("語", 300)} {
		add("Reject", &client.Reject{MessageType: client.MessageTypeSendTx, Hash: &h1, Code: 3, Message: msg})
		add("Reject", &client.Reject{MessageType: 0xfd, Hash: nil, Code: 0, Message: msg})
	}
	_ = thorough
	return out
}

func c15Encode(p client.MessagePayload) ([]byte, error) {
	var buf bytes.Buffer
	err := (client.Message{Payload: p}).Serialize(&buf)
	return buf.Bytes(), err
}

// c15Canon renders a payload for structural comparison; dependency-typed fields are rendered
// through their own encoding (derived fields filled in on decode do not count as differences).
func c15Canon(p client.MessagePayload) string {
	d := core.NewDumper(time.Unix(0, 0))
	d.Skip = func(t reflect.Type, f string) bool { return false }
	d.Add("p", canonValue(reflect.ValueOf(p)))
	return d.String()
}

func canonValue(v reflect.Value) interface{} {
	switch x := v.Interface().(type) {
	case *wire.MsgTx:
		if x == nil {
			return "tx:nil"
		}
		var b bytes.Buffer
		x.Serialize(&b)
		return "tx:" + fmt.Sprintf("%x", b.Bytes())
	case *merkle_proof.MerkleProof:
		if x == nil {
			return "mp:nil"
		}
		b, _ := json.Marshal(x)
		return "mp:" + string(b)
	case *expanded_tx.ExpandedTx, expanded_tx.AncestorTxs, merchant_api.FeeQuotes:
		b, _ := json.Marshal(x)
		if string(b) == "null" {
			b = []byte("[]") // nil and empty lists are the same message
		}
		return "dep:" + string(b)
	}
	switch v.Kind() {
	case reflect.Ptr:
		if v.IsNil() {
			return "nil"
		}
		return map[string]interface{}{"&": canonValue(v.Elem())}
	case reflect.Struct:
		m := map[string]interface{}{}
		for i := 0; i < v.NumField(); i++ {
			if v.Type().Field(i).PkgPath != "" {
				continue
			}
			m[v.Type().Field(i).Name] = canonValue(v.Field(i))
		}
		return m
	case reflect.Slice:
		if v.Type().Elem().Kind() == reflect.Uint8 {
			return fmt.Sprintf("x%x", v.Bytes())
		}
		out := []interface{}{}
		for i := 0; i < v.Len(); i++ {
			out = append(out, canonValue(v.Index(i)))
		}
		return out
	case reflect.Array:
		if v.Type().Elem().Kind() == reflect.Uint8 {
			b := make([]byte, v.Len())
			for i := range b {
				b[i] = byte(v.Index(i).Uint())
			}
			return fmt.Sprintf("x%x", b)
		}
	}
	if v.CanInterface() {
		if s, ok := v.Interface().(fmt.Stringer); ok && v.Kind() == reflect.Struct {
			return s.String()
		}
		return v.Interface()
	}
	return "?"
}

type c15Task struct {
	Mode string `json:"mode"` // roundtrip | pairs | prefixes
	From int    `json:"from"`
	To   int    `json:"to"`
}

type c15Result struct {
	Evals      int              `json:"evals"`
	Distinct   int              `json:"distinct"`
	Violations []core.Violation `json:"violations"`
	Samples    []interface{}    `json:"samples"`
}

func c15Exec(t c15Task) c15Result {
	var res c15Result
	corpus := c15Corpus(true)
	seenViol := map[string]bool{}
	fail := func(clause, class, detail string, wit interface{}) {
		k := clause + class
		if seenViol[k] {
			return
		}
		seenViol[k] = true
		res.Violations = append(res.Violations, core.Violation{Property: "C15", Clause: clause, Class: class, Detail: detail, Witness: wit})
	}
	decodeAll := func(b []byte) ([]client.MessagePayload, int, error, interface{}) {
		r := bytes.NewReader(b)
		var out []client.MessagePayload
		var err error
		var pv interface{}
		for r.Len() > 0 {
			var m client.Message
			pv = guard(func() { err = m.Deserialize(r) })
			if pv != nil || err != nil {
				return out, r.Len(), err, pv
			}
			out = append(out, m.Payload)
		}
		return out, r.Len(), nil, nil
	}
	switch t.Mode {
	case "roundtrip":
		distinct := map[string]bool{}
		for i := t.From; i < t.To && i < len(corpus); i++ {
			c := corpus[i]
			enc, err := c15Encode(c.P)
			if err != nil {
				fail("encodes", c.Name, fmt.Sprintf("Serialize failed: %v", err), c.Name)
				continue
			}
			distinct[string(enc)] = true
			res.Evals++
			sentinel := []byte{0xde, 0xad, 0xbe}
			r := bytes.NewReader(append(append([]byte{}, enc...), sentinel...))
			var m client.Message
			var derr error
			if pv := guard(func() { derr = m.Deserialize(r) }); pv != nil {
				fail("decode-panics", c.Name, fmt.Sprintf("decode of a valid %s encoding panicked: %v", c.Name, pv), fmt.Sprintf("%x", enc))
				continue
			}
			if derr != nil {
				fail("decodes", c.Name, fmt.Sprintf("decode of a valid %s encoding failed: %v (%x)", c.Name, derr, trunc(enc)), fmt.Sprintf("%x", enc))
				continue
			}
			if r.Len() != len(sentinel) {
				fail("consumes-exactly", c.Name, fmt.Sprintf("%s: %d bytes written, %d consumed", c.Name, len(enc), len(enc)+len(sentinel)-r.Len()), fmt.Sprintf("%x", enc))
			}
			if reflect.TypeOf(m.Payload) != reflect.TypeOf(c.P) {
				fail("type-identity", c.Name, fmt.Sprintf("decoded %T from an encoded %T", m.Payload, c.P), c.Name)
				continue
			}
			enc2, err := c15Encode(m.Payload)
			if err != nil || !bytes.Equal(enc, enc2) {
				fail("round-trip-bytes", c.Name, fmt.Sprintf("%s: re-encoding the decoded value differs (err %v)\n first:  %x\n second: %x", c.Name, err, trunc(enc), trunc(enc2)), fmt.Sprintf("%x", enc))
			}
			if a, b := c15Canon(c.P), c15Canon(m.Payload); a != b {
				fail("round-trip-value", c.Name, fmt.Sprintf("%s: decoded value differs\n sent: %s\n got:  %s", c.Name, truncS(a), truncS(b)), fmt.Sprintf("%x", enc))
			}
			// type table
			pt := client.PayloadForType(c.P.Type())
			if pt == nil || reflect.TypeOf(pt) != reflect.TypeOf(c.P) {
				fail("type-table", c.Name, fmt.Sprintf("PayloadForType(%d) is %T for %T", c.P.Type(), pt, c.P), c.Name)
			}
			if client.NameForMessageType(c.P.Type()) == "" {
				fail("type-table", c.Name+" name", fmt.Sprintf("type %d of %T has no name", c.P.Type(), c.P), c.Name)
			}
			if i%61 == 0 {
				res.Samples = append(res.Samples, map[string]interface{}{"type": c.Name, "encoding": fmt.Sprintf("%x", trunc(enc)), "bytes": len(enc)})
			}
		}
		res.Distinct = len(distinct)
	case "prefixes":
		for i := t.From; i < t.To && i < len(corpus); i++ {
			c := corpus[i]
			enc, err := c15Encode(c.P)
			if err != nil {
				continue
			}
			step := 1
			if len(enc) > 4000 {
				step = 7 // very long encodings: every 7th cut plus the last 64
			}
			for cut := 0; cut < len(enc); cut++ {
				if step > 1 && cut%step != 0 && cut < len(enc)-64 {
					continue
				}
				res.Evals++
				r := bytes.NewReader(enc[:cut])
				var m client.Message
				var derr error
				if pv := guard(func() { derr = m.Deserialize(r) }); pv != nil {
					fail("prefix-panics", c.Name, fmt.Sprintf("%s: decoding the first %d of %d bytes panicked: %v", c.Name, cut, len(enc), pv), fmt.Sprintf("%x", enc[:cut]))
					break
				}
				if derr == nil {
					fail("prefix-fails", c.Name, fmt.Sprintf("%s: the first %d of %d bytes decode without error as %T", c.Name, cut, len(enc), m.Payload), fmt.Sprintf("%x", enc[:cut]))
					break
				}
			}
			res.Distinct++
		}
	case "pairs":
		// one representative per type: all ordered pairs (and triples through a third fixed one)
		reps := map[string]c15Case{}
		var names []string
		for _, c := range corpus {
			if _, ok := reps[c.Name]; !ok {
				names = append(names, c.Name)
			}
			reps[c.Name] = c // last (richest) value of the type
		}
		sort.Strings(names)
		for i := t.From; i < t.To && i < len(names); i++ {
			for _, nb := range names {
				for _, nc := range []string{"", "Tx"} {
					seq := []c15Case{reps[names[i]], reps[nb]}
					if nc != "" {
						seq = append(seq, reps[nc])
					}
					var stream []byte
					for _, c := range seq {
						e, _ := c15Encode(c.P)
						stream = append(stream, e...)
					}
					res.Evals++
					got, left, err, pv := decodeAll(stream)
					if pv != nil || err != nil || left != 0 || len(got) != len(seq) {
						fail("stream-framing", names[i]+" first", fmt.Sprintf("stream %s,%s,%s: decoded %d messages, %d bytes left, err %v panic %v", names[i], nb, nc, len(got), left, err, pv), nil)
						continue
					}
					for k := range seq {
						if c15Canon(seq[k].P) != c15Canon(got[k]) {
							fail("stream-framing", names[i]+" value", fmt.Sprintf("message %d of stream %s,%s,%s decodes to a different value", k, names[i], nb, nc), nil)
						}
					}
				}
			}
			res.Distinct++
		}
		// bijection of the tables
		byType := map[uint64]string{}
		byName := map[string]uint64{}
		for _, n := range names {
			tp := reps[n].P.Type()
			if o, ok := byType[tp]; ok && o != n {
				fail("type-table", "duplicate code", fmt.Sprintf("%s and %s share type code %d", o, n, tp), nil)
			}
			byType[tp] = n
			nm := client.NameForMessageType(tp)
			if o, ok := byName[nm]; ok && o != tp {
				fail("type-table", "duplicate name", fmt.Sprintf("types %d and %d share the name %q", o, tp, nm), nil)
			}
			byName[nm] = tp
		}
		if t.From == 0 && len(names) != 37 {
			fail("type-table", "corpus covers all types", fmt.Sprintf("corpus covers %d payload types, expected 37", len(names)), nil)
		}
	}
	return res
}

func trunc(b []byte) []byte {
	if len(b) > 120 {
		return b[:120]
	}
	return b
}

func truncS(s string) string {
	if len(s) > 600 {
		return s[:600] + "..."
	}
	return s
}

func init() {
	core.RegisterOp("c15", func(arg json.RawMessage) (interface{}, error) {
		var t c15Task
		if err := json.Unmarshal(arg, &t); err != nil {
			return nil, err
		}
		return c15Exec(t), nil
	})
	All["C15"] = runC15
}

func runC15() int {
	rep := core.NewReport("C15", "model_checking")
	pool := core.NewPool()
	n := len(c15Corpus(true))
	var tasks []interface{}
	for i := 0; i < n; i += 40 {
		tasks = append(tasks, c15Task{"roundtrip", i, i + 40}, c15Task{"prefixes", i, i + 40})
	}
	for i := 0; i < 37; i += 4 {
		tasks = append(tasks, c15Task{"pairs", i, i + 4})
	}
	evals, distinct := 0, 0
	pool.Map("c15", tasks, func(i int, r core.TaskResult) {
		if r.Died != "" || r.Err != "" {
			rep.AddViolation(core.Violation{Property: "C15", Clause: "codec-terminates", Class: "worker died in the codec", Detail: r.Died + r.Err, Witness: tasks[i]})
			return
		}
		var res c15Result
		json.Unmarshal(r.Res, &res)
		evals += res.Evals
		distinct += res.Distinct
		for _, v := range res.Violations {
			rep.AddViolation(v)
		}
		for _, s := range res.Samples {
			rep.AddSample(s)
		}
		rep.Outcome(fmt.Sprint(tasks[i].(c15Task).Mode, res.Distinct))
	})
	rep.Coverage["evaluations"] = evals
	rep.Coverage["distinct_nontrivial"] = distinct
	rep.Coverage["states"] = n
	rep.Coverage["transitions"] = evals
	rep.Coverage["traces_validated_against_impl"] = evals
	rep.Coverage["corpus_values"] = n
	rep.Coverage["rule"] = "bounded-exhaustive: for all 37 payload types the product of per-field boundary domains (varints {0,1,0xfc,0xfd,0xffff,0x10000,2^32-1,2^32,2^64-1} where the Go type allows, lists of length 0/1/2/253, nil vs present hash / merkle proof, flag products, scripts empty/short/253 bytes, txs with 0-2 inputs/outputs, spent-output count = input count): encode, decode behind 3 sentinel bytes (exact consumption), re-encode to identical bytes, structural equality, type tables; every strict prefix of every encoding must fail with an error; every ordered pair (and triple) of one representative per type concatenated decodes to the same sequence. distinct = distinct encodings"
	c15Conc(rep)
	rep.Assumptions = []string{"fields whose type lives in a dependency (wire.MsgTx, merkle_proof.MerkleProof, expanded_tx.*, fee quotes) are compared through their own encoding"}
	return rep.Finish()
}
