//go:build verif

package checks

// C15, concurrent part: two or three goroutines serialise different messages at the same time, each
// to its own writer (a client connection). Every Write is a scheduling point that captures what the
// writer was handed at the moment the write completes, as a slow connection would. All interleavings
// are explored; every writer must have received exactly the bytes of its own message ("consumes
// exactly the bytes written ... any concatenation decodes to the same sequence" also when the
// encoder is used from several goroutines, as the client does for requests and the server for
// notifications).

import (
	"bytes"
	"encoding/json"
	"fmt"

	"github.com/tokenized/spynode/internal/verif/core"
	"github.com/tokenized/spynode/pkg/client"
	"github.com/tokenized/spynode/pkg/vrt"
)

type pointWriter struct {
	got bytes.Buffer
}

func (p *pointWriter) Write(b []byte) (int, error) {
	// the connection takes its time: the caller's slice is read only when the write goes through
	vrt.Point(&vrt.Op{Kind: "conn-write", Site: "writer", Enabled: func() bool { return true }})
	p.got.Write(b)
	return len(b), nil
}

type c15ConcScenario struct {
	Msgs []int `json:"msgs"` // corpus indexes, one per thread
}

func c15ConcOne(rep *core.Report, sc c15ConcScenario, bound int, replay []int) concStats {
	corpus := c15Corpus(false)
	var want [][]byte
	for _, i := range sc.Msgs {
		b, err := c15Encode(corpus[i].P)
		if err != nil {
			panic(err)
		}
		want = append(want, b)
	}
	var ws []*pointWriter
	spawn := func() {
		ws = nil
		for t, i := range sc.Msgs {
			w := &pointWriter{}
			ws = append(ws, w)
			p := corpus[i].P
			vrt.Go(fmt.Sprintf("T%d", t), func() {
				if err := (client.Message{Payload: p}).Serialize(w); err != nil {
					panic(err)
				}
			})
		}
	}
	each := func(x *concExec) {
		wit := map[string]interface{}{"kind": "c15conc", "scenario": sc, "choices": x.choices, "schedule": x.schedule}
		for _, p := range x.panics {
			rep.AddViolation(core.Violation{Property: "C15", Clause: "concurrent-serialize", Class: "panic while serialising concurrently", Detail: p, Witness: wit})
			return
		}
		for t := range ws {
			if !bytes.Equal(ws[t].got.Bytes(), want[t]) {
				rep.AddViolation(core.Violation{Property: "C15", Clause: "concurrent-serialize", Class: "a writer received other bytes than its own message when messages are serialised concurrently",
					Detail:  fmt.Sprintf("thread %d serialised a %T (%d bytes) while %d other message(s) were serialised; its writer received %d bytes that differ from the message's encoding", t, corpus[sc.Msgs[t]].P, len(want[t]), len(sc.Msgs)-1, ws[t].got.Len()),
					Witness: wit})
				return
			}
		}
		rep.Outcome("conc-serialize ok")
	}
	if replay != nil {
		concLenient = true
		x := concRun(spawn, replay)
		concLenient = false
		each(x)
		return concStats{Executions: 1, Points: len(x.points)}
	}
	return concExplore(spawn, bound, 200000, each)
}

func c15Conc(rep *core.Report) {
	corpus := c15Corpus(false)
	// one representative per payload type (first of each), paired with a few partners of other sizes
	var reps []int
	seen := map[string]bool{}
	for i, c := range corpus {
		t := fmt.Sprintf("%T", c.P)
		if !seen[t] {
			seen[t] = true
			reps = append(reps, i)
		}
	}
	bound := 2
	var scs []c15ConcScenario
	for k, i := range reps {
		scs = append(scs, c15ConcScenario{Msgs: []int{i, reps[(k+1)%len(reps)]}})
		scs = append(scs, c15ConcScenario{Msgs: []int{i, reps[(k+7)%len(reps)]}})
	}
	if rep.Thorough() {
		bound = 3
		for k, i := range reps {
			scs = append(scs, c15ConcScenario{Msgs: []int{i, reps[(k+3)%len(reps)], reps[(k+11)%len(reps)]}})
		}
	}
	execs, points := 0, 0
	for _, sc := range scs {
		st := c15ConcOne(rep, sc, bound, nil)
		execs += st.Executions
		points += st.Points
		if st.Capped {
			rep.Exhaustive = false
			rep.Coverage["conc_cap_hit"] = fmt.Sprint(sc.Msgs)
		}
	}
	addInt(rep, "transitions", points)
	addInt(rep, "traces_validated_against_impl", execs)
	rep.Coverage["conc_scenarios"] = len(scs)
	rep.Coverage["conc_executions"] = execs
	rep.Coverage["conc_scheduling_points"] = points
	rep.Coverage["conc_preemption_bound"] = bound
	rep.Coverage["conc_rule"] = "concurrent serialisation: 2 (thorough: also 3) goroutines each serialise one message (one representative per payload type, paired with two partners) to their own writer, every Write a scheduling point that reads the caller's slice when it completes; all interleavings with at most conc_preemption_bound pre-emptions; each writer must hold exactly its own message's encoding"
}

func init() {
	concReplayers["c15conc"] = func(prop string, wit json.RawMessage) []core.Violation {
		var w struct {
			Scenario c15ConcScenario `json:"scenario"`
			Choices  []int           `json:"choices"`
		}
		json.Unmarshal(wit, &w)
		rep := core.NewReport(prop, "model_checking")
		c15ConcOne(rep, w.Scenario, 0, w.Choices)
		return rep.Violations
	}
}
