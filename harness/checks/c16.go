//go:build verif

package checks

import (
	"encoding/json"
	"fmt"
	"time"

	"github.com/tokenized/spynode/internal/verif/core"
	"github.com/tokenized/spynode/pkg/client"
)

func cBase(connType client.ConnectionType) CWorldCfg {
	return CWorldCfg{ConnType: connType, AutoAccept: true, AutoReady: connType == client.ConnectionTypeFull, RequestTimeout: 10 * time.Second}
}

func c16Scenarios() []cParams {
	evA := []string{"call:gettx:01", "call:gettx:02", "call:sendtx:01", "call:getheaders:5", "call:getheaders:0", "call:getheader:03", "call:reprocess:04",
		"call:markinvalid:05", "call:marknotinvalid:05", "call:feequotes:-",
		"ans:0:proper", "ans:1:proper", "ans:0:reject", "ans:1:reject", "unsol:basetx", "unsol:accept", "unsol:reject", "unsol:header", "tick:4000", "tick:10100"}
	// calls issued before the handshake completes (the server accepts late) and across a drop
	manual := CWorldCfg{ConnType: client.ConnectionTypeFull, AutoAccept: false, AutoReady: false, RequestTimeout: 10 * time.Second}
	manualShort := manual
	manualShort.MessageTimeout = 3 * time.Second
	evM := []string{"call:gettx:01", "call:getheader:03", "accept:valid", "ready:1", "ans:0:proper", "ans:1:proper", "ans:0:reject", "tick:4000", "tick:10100", "drop", "tick:2100"}
	return []cParams{{Prop: "C16", Cfg: cBase(client.ConnectionTypeFull), Events: evA},
		{Prop: "C16", Cfg: manual, Events: evM, ExtraDepth: 1},
		// start state: a call given up before the handshake completed, whose request is still queued and
		// is written - and answered - once the connection is ready
		{Prop: "C16", Cfg: manualShort, Prefix: []string{"call:feequotes:-", "tick:4000", "accept:valid", "ready:1"},
			Events: []string{"ans:0:proper", "ans:1:proper", "call:gettx:01", "call:feequotes:-", "tick:4000", "tick:10100"}},
		{Prop: "C16", Cfg: manualShort, Prefix: []string{"call:gettx:01", "tick:4000", "accept:valid", "ready:1"},
			Events: []string{"ans:0:proper", "ans:1:proper", "ans:0:reject", "call:gettx:01", "call:getheader:03", "tick:4000", "tick:10100"}}}
}

func c17Scenarios() []cParams {
	ev := []string{"note:tx", "note:upd", "note:tx:same", "note:upd:skip", "note:tx:old", "note:upd:far", "note:hdrs", "note:insync", "drop", "tick:2100", "tick:100", "addhandler"}
	resume := cBase(client.ConnectionTypeFull)
	resume.FirstReady = 57
	// an application that needs a while per notification and resumes from its own last handled id
	slow := cBase(client.ConnectionTypeFull)
	slow.HandlerDelay, slow.OwnID = 1500*time.Millisecond, true
	return []cParams{
		{Prop: "C17", Cfg: slow, Events: []string{"note:tx", "note:upd", "drop", "tick:2100", "tick:1000", "tick:100"}, Replay: true},
		{Prop: "C17", Cfg: cBase(client.ConnectionTypeFull), Events: ev},
		{Prop: "C17", Cfg: cBase(client.ConnectionTypeFull), Events: []string{"note:tx", "note:upd", "note:hdrs", "drop", "tick:2100", "tick:100"}, Replay: true},
		{Prop: "C17", Cfg: resume, Events: []string{"note:tx", "note:upd", "note:tx:old", "drop", "tick:2100"}, Replay: true, Preload: 2},
	}
}

func c18Scenarios() []cParams {
	manual := func(ct client.ConnectionType) CWorldCfg {
		return CWorldCfg{ConnType: ct, AutoAccept: false, AutoReady: false, RequestTimeout: 10 * time.Second}
	}
	variants := []string{"accept:valid", "accept:wrongkey", "accept:otherhash", "accept:othersigner", "accept:rootsigner", "accept:alteredcounts", "accept:alteredutxo", "accept:alteredpush", "accept:otherhashsig", "accept:replay"}
	ev := append([]string{"call:gettx:01", "call:subscribe:s", "ready:1", "note:tx", "drop", "tick:2100", "tick:100", "ans:0:proper"}, variants...)
	// requests whose write fails on a half-open connection and that are carried over to the next connection
	evW := []string{"wfail", "call:subscribe:s", "call:gettx:01", "drop", "tick:2100", "tick:100", "tick:10100", "ans:0:proper"}
	return []cParams{
		{Prop: "C18", Cfg: manual(client.ConnectionTypeFull), Events: ev},
		{Prop: "C18", Cfg: manual(client.ConnectionTypeControl), Events: ev},
		{Prop: "C18", Cfg: cBase(client.ConnectionTypeFull), Events: evW, ExtraDepth: 1},
		{Prop: "C18", Cfg: cBase(client.ConnectionTypeControl), Events: evW, ExtraDepth: 1},
	}
}

type cCheck struct {
	prop      string
	scenarios []cParams
	depthQ    int
	depthT    int
	rule      string
	sched     func(rep *core.Report, pool *core.Pool)
}

var cAssume = []string{"scripted server S speaks the real codec over the virtual network; the real RemoteClient.Run (channels, selects, the threads package, timers rewritten onto the controlled scheduler) is executed", "hist mode: canonical thread schedule between server/application events; schedule-dependent races are explored by the sched part (one deviation at every scheduling point, all alternatives of selects with several ready cases)"}

func runCCheck(cc cCheck) int {
	rep := core.NewReport(cc.prop, "model_checking")
	pool := core.NewPool()
	depth, maxStates, budget := cc.depthQ, 300000, 150*time.Second
	if rep.Thorough() {
		depth, maxStates, budget = cc.depthT, 4000000, 25*time.Minute
	}
	deadline := time.Now().Add(budget)
	totalS, totalT := 0, 0
	for si, sc := range cc.scenarios {
		sub := core.NewReport(cc.prop, "model_checking")
		init := runCHist(sc, nil, true)
		key := init.key
		init.w.Close()
		for _, v := range init.w.viol {
			sub.AddViolation(v)
		}
		st := core.BFSStats{}
		if len(init.w.viol) == 0 {
			st = core.BFS(pool, sub, core.BFSOpts{Op: "chist", Params: sc, MaxDepth: depth + sc.ExtraDepth, MaxStates: maxStates, Deadline: deadline, InitKey: key, Batch: 4})
		}
		totalS += st.States
		totalT += st.Transitions
		for _, v := range sub.Violations {
			if v.Property == cc.prop || v.Clause == "panic" || v.Clause == "livelock" {
				v.Property = cc.prop
				rep.AddViolation(v)
			}
		}
		for o := range sub.Outcomes {
			rep.Outcome(o)
		}
		for _, s := range sub.Samples {
			rep.AddSample(map[string]interface{}{"scenario": si, "history": s})
		}
		for _, e := range sub.HarnessErrs {
			rep.HarnessError("%s", e)
		}
		if !sub.Exhaustive {
			rep.Exhaustive = false
			rep.Coverage["cap_hit"] = sub.Coverage["cap_hit"]
		}
		rep.Coverage[fmt.Sprintf("scenario_%d_levels", si)] = st.LevelSizes
		if d, ok := rep.Coverage["depth_completed"].(int); !ok || st.Depth-sc.ExtraDepth < d {
			rep.Coverage["depth_completed"] = st.Depth - sc.ExtraDepth
		}
	}
	rep.Coverage["states"] = totalS
	rep.Coverage["transitions"] = totalT
	if cc.sched != nil {
		cc.sched(rep, pool)
	}
	if t, ok := rep.Coverage["transitions"].(int); ok {
		rep.Coverage["traces_validated_against_impl"] = t
	}
	rep.Coverage["rule"] = cc.rule
	rep.Assumptions = cAssume
	return rep.Finish()
}

func cReplay(prop string) func(json.RawMessage) []core.Violation {
	return func(wit json.RawMessage) []core.Violation {
		var x struct {
			Hist   []string  `json:"hist"`
			Params cParams   `json:"params"`
			Cfg    CWorldCfg `json:"cfg"`
			Plan   *cPlanTask `json:"plan"`
		}
		json.Unmarshal(wit, &x)
		if x.Plan != nil {
			return cSchedExec(*x.Plan).Violations
		}
		if x.Params.Prop == "" {
			x.Params = cParams{Prop: prop, Cfg: x.Cfg}
		}
		x.Params.Prefix = nil // the recorded history already starts with the prefix
		r := runCHist(x.Params, x.Hist, true)
		defer r.w.Close()
		return r.w.viol
	}
}

func init() {
	All["C16"] = func() int {
		return runCCheck(cCheck{prop: "C16", scenarios: c16Scenarios(), depthQ: 4, depthT: 6, sched: c16Sched,
			rule: "(1) explicit-state BFS over histories of concurrent application calls (GetTx x2, SendTx sharing a hash with a GetTx, GetHeaders x2, GetHeader, ReprocessTx, MarkHeaderInvalid/NotInvalid on one hash, GetFeeQuotes), server answers in any order (proper / reject / none), unsolicited responses, clock steps up to past the 10 s request time-out; at the end every call must have returned the payload addressed to its own key, a reject error with the server's code and message, or a time-out at the configured time-out. (2) stateless schedule exploration with an immediately answering server: at every scheduling point of baselines with 2-3 concurrent calls the running thread is stalled (50 ms / 900 ms) or pre-empted (2 alternatives), and for every select that has several ready cases every alternative is taken. (3) outputs lookup: every outpoint list of length <= 3 over two txids x indexes {0, 1, out of range}: per outpoint, in order, its value and locking script, or a non-nil error"})
	}
	All["C17"] = func() int {
		return runCCheck(cCheck{prop: "C17", scenarios: c17Scenarios(), depthQ: 5, depthT: 7, sched: c17Sched,
			rule: "(1) explicit-state BFS over server streams {Tx, TxUpdate with the next / repeated / skipped / old / far id, Headers, InSync}, connection drops and reconnects (application declares Ready(NextMessageID()) from its handler), also with a server that replays its log from the declared id and with a first Ready at a persisted id (57): delivered ids consecutive from the declared id, NextMessageID = last + 1, both handlers identical, server order preserved, nothing missed with a replaying server. (2) schedule exploration: at every scheduling point of a baseline with an immediately replaying server one stall / pre-emption"})
	}
	All["C18"] = func() int {
		return runCCheck(cCheck{prop: "C18", scenarios: c18Scenarios(), depthQ: 4, depthT: 6, sched: c18Sched,
			rule: "(with a schedule exploration part: baselines that queue a request before an honest / forged accept on both connection types; one stall or pre-emption at every scheduling point) explicit-state BFS, both connection types, manual server: accept message variants {valid, unrelated key, key derived from another hash, signed by another key, signed by the root key, signature over altered message/utxo/push-data counts, signature over another session hash, replay of the previous session's accept}, application calls (a request, a subscription, Ready) before/after accept and while disconnected, notifications, drops, reconnects: register verifies under the client key, only handshake types before the handshake completes, a forged accept ends Run with an error / IsAccepted false / no handler data, a call never returns success without its bytes having reached the server"})
	}
	Replayers["C16"] = cReplay("C16")
	Replayers["C17"] = cReplay("C17")
	Replayers["C18"] = cReplay("C18")
}

// CDebug traces one client history (developer aid).
func CDebug(prop string, idx int, hist []string) {
	var sc cParams
	switch prop {
	case "C17":
		sc = c17Scenarios()[idx]
	case "C18":
		sc = c18Scenarios()[idx]
	default:
		sc = c16Scenarios()[idx]
	}
	traceOn = true
	r := runCHist(sc, hist, true)
	for _, l := range r.w.trace {
		println(l)
	}
	for _, c := range r.w.calls {
		println("CALL", c.Kind, c.Key, "done", c.Done, "err", fmt.Sprint(c.Err), "result", c.Result, "dur", (c.End-c.Start)/1e6)
	}
	for _, e := range r.w.H[0].events {
		println("CB", e.Kind, e.ID, e.At/1e6)
	}
	println("outcome", r.outcome, "runErr", fmt.Sprint(r.w.runErr), "ready", fmt.Sprint(r.w.readyCalls), "next", r.w.C.NextMessageID())
	for _, v := range r.w.viol {
		println("VIOL", v.Property, v.Clause, "|", v.Class, "|", v.Detail)
	}
	r.w.Close()
}
