//go:build verif

package checks

import (
	"bytes"
	"encoding/json"
	"fmt"
	"strings"
	"time"

	"github.com/tokenized/pkg/bitcoin"
	"github.com/tokenized/pkg/wire"
	"github.com/tokenized/spynode/internal/verif/core"
	"github.com/tokenized/spynode/pkg/client"
	"github.com/tokenized/spynode/pkg/vrt"
)

// C16, outputs lookup: every outpoint list of length <= 3 over two txids x indexes {0, 1,
// out of range}, against an immediately answering server.

type c16OutTask struct {
	Lists []string `json:"lists"` // each "a0,b1,a9"
}

type c16OutResult struct {
	Evals      int              `json:"evals"`
	Violations []core.Violation `json:"violations"`
	Outcomes   []string         `json:"outcomes"`
}

func c16OutExec(t c16OutTask) c16OutResult {
	var res c16OutResult
	txs := map[byte]*wire.MsgTx{'a': cTxFor("0a"), 'b': cTxFor("0b")}
	seen := map[string]bool{}
	for _, list := range t.Lists {
		cfg := cBase(client.ConnectionTypeFull)
		cfg.AutoAnswer = true
		w := NewCWorld(cfg)
		w.Start()
		w.Tick(10 * time.Millisecond)
		var ops []wire.OutPoint
		for _, it := range strings.Split(list, ",") {
			ops = append(ops, wire.OutPoint{Hash: *txs[it[0]].TxHash(), Index: uint32(it[1] - '0')})
		}
		var got []bitcoin.UTXO
		var err error
		done := false
		c := w.C
		th := vrt.GoEnv("App.GetOutputs", func() {
			got, err = c.GetOutputs(core.Ctx(), ops)
			done = true
		})
		th.Env = false
		w.settle()
		for i := 0; i < 6 && !done; i++ {
			w.Tick(6 * time.Second)
		}
		res.Evals++
		fail := func(clause, class, detail string) {
			k := clause + class
			if !seen[k] {
				seen[k] = true
				res.Violations = append(res.Violations, core.Violation{Property: "C16", Clause: clause, Class: class, Detail: detail, Witness: map[string]interface{}{"outpoints": list}})
			}
		}
		if ps := w.S.Panics(); len(ps) > 0 {
			fail("panic", "GetOutputs panics", fmt.Sprintf("GetOutputs(%s): %v", list, ps[0].PanicVal))
			w.Close()
			continue
		}
		anyBad := false
		for _, it := range strings.Split(list, ",") {
			if int(it[1]-'0') >= len(txs[it[0]].TxOut) {
				anyBad = true
			}
		}
		switch {
		case !done:
			fail("outputs-returns", "GetOutputs never returned", list)
		case anyBad:
			if err == nil {
				fail("outputs-error-for-bad-index", "no error for an out-of-range output index", fmt.Sprintf("GetOutputs(%s) returned %d outputs and a nil error", list, len(got)))
			}
			res.Outcomes = append(res.Outcomes, "error")
		case err != nil:
			fail("outputs-in-order", "valid lookup failed", fmt.Sprintf("GetOutputs(%s): %v", list, err))
		default:
			if len(got) != len(ops) {
				fail("outputs-in-order", "wrong number of outputs", fmt.Sprintf("GetOutputs(%s) returned %d outputs", list, len(got)))
			} else {
				for i, op := range ops {
					want := txs[strings.Split(list, ",")[i][0]].TxOut[op.Index]
					if got[i].Value != want.Value || !bytes.Equal(got[i].LockingScript, want.LockingScript) || got[i].Index != op.Index || got[i].Hash != op.Hash {
						repeat := "distinct txids"
						if strings.Count(list, string(list[0])) > 1 {
							repeat = "repeated txid"
						}
						fail("outputs-in-order", "output "+fmt.Sprint(i)+" is not the requested outpoint's ("+repeat+")", fmt.Sprintf("GetOutputs(%s)[%d] = value %d, want value %d", list, i, got[i].Value, want.Value))
						break
					}
				}
			}
			res.Outcomes = append(res.Outcomes, fmt.Sprintf("ok%d", len(ops)))
		}
		w.Close()
	}
	return res
}

func init() {
	core.RegisterOp("c16out", func(arg json.RawMessage) (interface{}, error) {
		var t c16OutTask
		if err := json.Unmarshal(arg, &t); err != nil {
			return nil, err
		}
		return c16OutExec(t), nil
	})
}

func c16Outputs(rep *core.Report, pool *core.Pool) {
	items := []string{"a0", "a1", "a9", "b0", "b1"}
	var lists []string
	var rec func(cur []string)
	rec = func(cur []string) {
		if len(cur) > 0 {
			lists = append(lists, strings.Join(cur, ","))
		}
		if len(cur) == 3 {
			return
		}
		for _, it := range items {
			rec(append(append([]string{}, cur...), it))
		}
	}
	rec(nil)
	var tasks []interface{}
	for i := 0; i < len(lists); i += 10 {
		j := i + 10
		if j > len(lists) {
			j = len(lists)
		}
		tasks = append(tasks, c16OutTask{lists[i:j]})
	}
	evals := 0
	pool.Map("c16out", tasks, func(i int, r core.TaskResult) {
		if r.Died != "" || r.Err != "" {
			rep.HarnessError("outputs lookup task: %s%s", r.Died, r.Err)
			return
		}
		var res c16OutResult
		json.Unmarshal(r.Res, &res)
		evals += res.Evals
		for _, v := range res.Violations {
			rep.AddViolation(v)
		}
		for _, o := range res.Outcomes {
			rep.Outcome("outputs " + o)
		}
	})
	rep.Coverage["outputs_lookups"] = evals
	if s, ok := rep.Coverage["transitions"].(int); ok {
		rep.Coverage["transitions"] = s + evals
	}
	if s, ok := rep.Coverage["states"].(int); ok {
		rep.Coverage["states"] = s + evals
	}
}
