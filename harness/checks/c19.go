//go:build verif

package checks

import (
	"strings"
	"encoding/json"
	"fmt"
	"time"

	"github.com/tokenized/spynode/internal/storage"
	"github.com/tokenized/spynode/internal/verif/core"
)

// C19: Stop / connection loss injected at every scheduling point of baseline runs of the real
// Node.Run (stateless schedule exploration with a deviation bound). DESIGN §4 C19.

type c19Baseline struct {
	Name  string     `json:"name"`
	P     histParams `json:"p"`
	Hist  []string   `json:"hist"`
	Kinds []string   `json:"kinds"` // deviations inserted at every point: stop|drop|reset|stall:<ms>|switch:<alt>
}

func c19Baselines() []c19Baseline {
	cold := WorldCfg{InitialChain: 3, StartHeight: 2, SafeDelayMS: 2000, RemoveMissing: true}
	coldFail := cold
	coldFail.DialFails = 2
	withU := cold
	withU.Untrusted = 1
	uFail := cold
	uFail.Untrusted, uFail.UDialFails = 1, 2
	giveUp := cold
	giveUp.DialFails, giveUp.MaxRetries = 6, 2
	burst := cold
	burst.Burst = 104
	burstU := burst
	burstU.Untrusted = 1
	env := []string{"stop", "drop", "reset"}
	sched := []string{"stall:150", "stall:600", "switch:0", "switch:1"}
	return []c19Baseline{
		{"tx burst that fills the unconfirmed-tx channel (more txs relayed back to back than it buffers); Stop / connection loss at every point", histParams{Prop: "C19", Cfg: burst, Boot: "synced", Tx: true},
			[]string{"burst:T", "tick:250"}, []string{"stop", "drop"}},
		{"the same burst relayed by the trusted and an untrusted peer at the same time (two producers on the full channel); Stop at every point", histParams{Prop: "C19", Cfg: burstU, Boot: "synced", Tx: true},
			[]string{"multi:burst:T|burst:U1", "tick:250"}, []string{"stop"}},
		{"the application's output fetcher fails while a block with a new relevant tx is processed; Stop at every point and at the end", histParams{Prop: "C19", Cfg: cold, Boot: "synced", Tx: true},
			[]string{"ffail", "mine:R1", "ans", "tick:250", "tick:250", "ext:1", "ans", "tick:250", "astop", "tick:100"}, []string{"stop"}},
		{"the trusted peer refuses more dials than MaxRetries (the node logs that it gives up and keeps trying); Stop at every point and at the end", histParams{Prop: "C19", Cfg: giveUp, Boot: "cold", Tx: true},
			[]string{"tick:1000", "tick:1000", "tick:1000", "tick:1000", "tick:1000", "astop", "tick:100"}, []string{"stop"}},
		{"in sync, dials to the configured untrusted peer are refused; Stop at every point and at the end", histParams{Prop: "C19", Cfg: uFail, Boot: "synced", Tx: true},
			[]string{"tick:1000", "tick:1000", "tick:1000", "tx:T:R1", "tick:1000", "astop", "tick:100"}, []string{"stop", "drop"}},
		{"cold start: connect, handshake, header sync, block download, in sync, tx traffic, block with a relevant tx", histParams{Prop: "C19", Cfg: cold, Boot: "cold", Tx: true},
			[]string{"settle", "tx:T:R1", "tick:250", "mine:R1", "ans", "tick:250", "ext:2", "settle", "tick:2300"}, env},
		{"trusted peer refuses the first two dials (waiting to reconnect)", histParams{Prop: "C19", Cfg: coldFail, Boot: "cold", Tx: true},
			[]string{"tick:600", "tick:1000", "tick:1000", "settle", "ext:1", "settle"}, env},
		{"in sync with an untrusted peer, tx from it, confirmation", histParams{Prop: "C19", Cfg: withU, Boot: "synced", Tx: true},
			[]string{"tx:U1:R1", "inv:T:R1", "tick:250", "mine+:R1", "tick:2300"}, env},
		{"scripted connection loss while in sync, then reconnect (Stop at every point of the restart)", histParams{Prop: "C19", Cfg: cold, Boot: "synced", Tx: true},
			[]string{"tx:T:R1", "drop", "tick:100", "tick:100", "tick:100", "tick:100", "tick:100", "tick:100", "tick:1000", "settle"}, []string{"stop"}},
		{"scripted Stop while application threads feed txs (slow/pre-empted threads at every point)", histParams{Prop: "C19", Cfg: withU, Boot: "synced", Tx: true},
			[]string{"tx:T:R1", "alocal:R3", "astop", "alocal:I1", "tick:100", "alocal:R2", "tick:100", "alocal:D1", "tick:100", "alocal:M1", "tick:100", "alocal:I2", "tick:100", "alocal:M2"}, sched},
	}
}

type c19Task struct {
	Baseline c19Baseline `json:"b"`
	Steps    []planStep  `json:"steps"`
}

type c19Result struct {
	Total      int64            `json:"total"`
	Applied    []string         `json:"applied"`
	Skipped    int              `json:"skipped"`
	Violations []core.Violation `json:"violations"`
	Outcome    string           `json:"outcome"`
}

func c19Exec(t c19Task) c19Result {
	p := t.Baseline.P
	w := NewWorld(p.Cfg)
	if p.Tx {
		w.SetupTxUniverse()
		w.cfg.Subscribe = [][]byte{subKey[:]}
	}
	if p.Cfg.Untrusted > 0 {
		w.SetupUntrusted(p.Cfg.Untrusted)
	}
	w.installPlan(t.Steps)
	w.StartNode()
	w.settle()
	if p.Boot == "synced" {
		w.bootSync(60)
		if p.Cfg.Untrusted > 0 && !w.stopRequested {
			w.bootUntrusted()
		}
	}
	for _, ev := range t.Baseline.Hist {
		if w.livelock || len(w.S.Panics()) > 0 || w.runDone {
			break
		}
		if w.stopRequested && (ev == "settle" || strings.HasPrefix(ev, "mine")) {
			// the peer keeps answering, but macro events that wait for convergence make no sense
			w.answerRound()
			w.Tick(250 * time.Millisecond)
			continue
		}
		w.applyEvent(ev)
		w.shadowCheck()
	}
	var res c19Result
	kind := "none"
	if len(t.Steps) > 0 {
		kind = t.Steps[0].Kind
	}
	phase := w.phaseOfNode()
	if w.stopRequested {
		// Stop must make Run and Stop return within a bound derived from the code's constants:
		// poll periods (100 ms .. 1 s), the non-interruptible retry delay, and 3 s slack.
		bound := int64(time.Duration(p.Cfg.retryDelayMS()+4000) * time.Millisecond)
		for w.S.Now-w.stopAt < bound && !(w.runDone && w.stopReturned) {
			w.Tick(100 * time.Millisecond)
			w.answerRound()
			if w.livelock || len(w.S.Panics()) > 0 {
				break
			}
		}
		w.PanicViolations("C19")
		if !(w.runDone && w.stopReturned) && len(w.viol) == 0 {
			w.fail("C19", "stop-terminates", "Run/Stop do not return ("+blockedSummary(w)+")",
				fmt.Sprintf("stop requested at %d ms (node %s); after %d ms of virtual time Run returned=%v Stop returned=%v; live threads: %s", w.stopAt/1e6, w.stopPhase, (w.S.Now-w.stopAt)/1e6, w.runDone, w.stopReturned, liveThreads(w)))
		}
		if w.runDone && w.stopReturned && len(w.viol) == 0 {
			// silence: run some more time with peer activity; no callback may arrive
			endAt := w.stopReturnedAt
			for i := 0; i < 5; i++ {
				w.pingAll()
				w.Tick(300 * time.Millisecond)
			}
			for _, e := range w.H[0].events {
				if e.At > endAt {
					w.fail("C19", "silent-after-stop", "handler called after Stop returned ("+e.Kind+")", fmt.Sprintf("%s callback at %d ms, Stop returned at %d ms", e.Kind, e.At/1e6, endAt/1e6))
					break
				}
			}
			if live := liveSystemThreads(w); live != "" {
				w.fail("C19", "threads-finished", "node threads still alive after Run returned", live)
			}
			w.persistedCheck()
		}
		res.Outcome = fmt.Sprintf("stop while %s: returned=%v", w.stopPhase, w.runDone && w.stopReturned)
	} else {
		ok, why := w.drainConverge()
		w.PanicViolations("C19")
		w.shadowCheck()
		if !ok && len(w.viol) == 0 {
			w.fail("C19", "reconnects-and-resumes", "no convergence after connection loss ("+kind+")", why)
		}
		w.reannounceCheck()
		if ok && len(w.viol) == 0 {
			w.processedAnnounced("C19")
		}
		res.Outcome = fmt.Sprintf("%s while %s: converged=%v conns=%d", kind, phase, ok, len(w.PConns))
	}
	for i := range w.viol {
		w.viol[i].Witness = map[string]interface{}{"baseline": t.Baseline, "steps": t.Steps}
	}
	for _, v := range w.viol {
		if v.Property == "C19" {
			res.Violations = append(res.Violations, v)
		}
	}
	res.Total, res.Applied, res.Skipped = w.plan.Total, w.plan.applied, w.plan.skipped
	w.Close()
	return res
}

func (c WorldCfg) retryDelayMS() int { return 1000 }

func (w *World) phaseOfNode() string {
	ctx := core.Ctx()
	switch {
	case w.P == nil:
		return "connecting"
	case w.Node.IsReady(ctx):
		return "in sync"
	case !w.P.gotVerack:
		return "handshake"
	}
	return "syncing"
}

func blockedSummary(w *World) string {
	n := 0
	for _, t := range w.S.Live() {
		if !t.Env {
			n++
		}
	}
	return fmt.Sprintf("%d node threads alive, stop during %s", n, w.stopPhase)
}

func liveThreads(w *World) string {
	s := ""
	for _, t := range w.S.Live() {
		op := "running"
		if t.Pending != nil {
			op = t.Pending.Kind + "@" + t.Pending.Site
		}
		s += t.Label + "[" + op + "] "
	}
	return s
}

func liveSystemThreads(w *World) string {
	s := ""
	for _, t := range w.S.Live() {
		if !t.Env {
			op := "running"
			if t.Pending != nil {
				op = t.Pending.Kind + "@" + t.Pending.Site
			}
			s += t.Label + "[" + op + "] "
		}
	}
	return s
}

// persistedCheck: what a fresh set of repositories loads from storage equals what the stopped
// node holds in memory (chain, unconfirmed set).
func (w *World) persistedCheck() {
	ctx := core.Ctx()
	repo := storage.NewBlockRepository(w.NodeCfg, w.Store.Clone())
	if err := repo.Load(ctx); err != nil {
		w.fail("C19", "state-persisted", "block store does not load after Stop", err.Error())
		return
	}
	memTip := w.Node.LastHeight(ctx)
	if repo.LastHeight() != memTip {
		w.fail("C19", "state-persisted", "saved chain height differs from the chain in memory", fmt.Sprintf("in memory tip %d, reloaded tip %d", memTip, repo.LastHeight()))
		return
	}
	for h := 0; h <= memTip; h++ {
		a, _ := w.Node.Hash(ctx, h)
		b, _ := repo.Hash(ctx, h)
		if a == nil || b == nil || *a != *b {
			w.fail("C19", "state-persisted", "saved chain differs from the chain in memory", fmt.Sprintf("height %d", h))
			return
		}
	}
	if txs, ok := core.Field(w.Node, "txs"); ok {
		if tr, ok := txs.Interface().(*storage.TxRepository); ok {
			fresh := storage.NewTxRepository(w.Store.Clone())
			if err := fresh.Load(ctx); err != nil {
				w.fail("C19", "state-persisted", "unconfirmed set does not load after Stop", err.Error())
				return
			}
			if a, b := c11Dump(tr), c11Dump(fresh); a != b {
				w.fail("C19", "state-persisted", "saved unconfirmed set differs from memory", fmt.Sprintf("memory: %s\nstorage: %s", a, b))
			}
		}
	}
}

// reannounceCheck: after a reconnect no already processed height is announced again with the same
// block.
func (w *World) reannounceCheck() {
	seen := map[string]bool{}
	for _, e := range w.H[0].events {
		if e.Kind != "headers" {
			continue
		}
		k := fmt.Sprintf("%d/%s", e.Height, e.Hash.String())
		if seen[k] && !w.everReorged {
			w.fail("C19", "no-reannouncement", "processed block announced again after reconnect", fmt.Sprintf("height %d announced twice", e.Height))
			return
		}
		seen[k] = true
	}
}

func init() {
	core.RegisterOp("c19", func(arg json.RawMessage) (interface{}, error) {
		var t c19Task
		if err := json.Unmarshal(arg, &t); err != nil {
			return nil, err
		}
		return c19Exec(t), nil
	})
	All["C19"] = runC19
	Replayers["C19"] = func(wit json.RawMessage) []core.Violation {
		var x struct {
			Baseline c19Baseline `json:"baseline"`
			Steps    []planStep  `json:"steps"`
		}
		json.Unmarshal(wit, &x)
		return c19Exec(c19Task{x.Baseline, x.Steps}).Violations
	}
}

func runC19() int {
	rep := core.NewReport("C19", "model_checking")
	pool := core.NewPool()
	bases := c19Baselines()
	totals := make([]int64, len(bases))
	var first []interface{}
	for _, b := range bases {
		first = append(first, c19Task{b, nil})
	}
	pool.Map("c19", first, func(i int, r core.TaskResult) {
		if r.Died != "" || r.Err != "" {
			rep.HarnessError("baseline %q: %s%s", bases[i].Name, r.Died, r.Err)
			return
		}
		var res c19Result
		json.Unmarshal(r.Res, &res)
		totals[i] = res.Total
		for _, v := range res.Violations {
			rep.AddViolation(v)
		}
		rep.Outcome("baseline: " + res.Outcome)
	})
	var tasks []interface{}
	var meta []c19Task
	for bi, b := range bases {
		for i := int64(1); i <= totals[bi]; i++ {
			for _, kind := range b.Kinds {
				st := planStep{At: i, Kind: kind}
				if k := strings.SplitN(kind, ":", 2); len(k) == 2 {
					st.Kind = k[0]
					fmt.Sscan(k[1], &st.Alt)
				}
				t := c19Task{b, []planStep{st}}
				tasks = append(tasks, t)
				meta = append(meta, t)
			}
		}
	}
	execs, skipped := 0, 0
	pool.Map("c19", tasks, func(i int, r core.TaskResult) {
		if r.Died != "" || r.Err != "" {
			rep.AddViolation(core.Violation{Property: "C19", Clause: "execution-terminates", Class: "execution did not finish (" + meta[i].Steps[0].Kind + ")",
				Detail: r.Died + r.Err, Witness: map[string]interface{}{"baseline": meta[i].Baseline, "steps": meta[i].Steps}})
			return
		}
		var res c19Result
		json.Unmarshal(r.Res, &res)
		if len(res.Applied) < len(meta[i].Steps) {
			skipped++
			return
		}
		execs++
		rep.Outcome(res.Outcome)
		for _, v := range res.Violations {
			rep.AddViolation(v)
		}
		if execs%211 == 1 {
			rep.AddSample(map[string]interface{}{"baseline": meta[i].Baseline.Name, "plan": meta[i].Steps, "outcome": res.Outcome})
		}
	})
	rep.Coverage["states"] = execs + len(bases)
	rep.Coverage["transitions"] = execs + len(bases)
	rep.Coverage["executions"] = execs + len(bases)
	rep.Coverage["traces_validated_against_impl"] = execs + len(bases)
	rep.Coverage["plans_not_applicable"] = skipped
	rep.Coverage["scheduling_points_per_baseline"] = totals
	rep.Coverage["deviation_bound_completed"] = 1
	rep.Coverage["rule"] = "stateless schedule exploration of the real Node.Run: for each baseline run (cold start with sync, tx traffic and a block; refused dials; in sync with an untrusted peer) one deviation is inserted at EVERY scheduling point (every lock/channel/sleep/read/write point at which the running thread could continue): Stop called from an application thread, trusted connection closed, trusted connection reset; for the baselines with a scripted connection loss / scripted Stop plus concurrent application HandleTx calls: Stop at every point of the restart sequence, respectively the running thread stalled for 150/600 ms or pre-empted in favour of another enabled thread (2 alternatives) at every point. Oracle: Run and Stop return within retry delay + 4 s of virtual time, no node thread left, no handler call after Stop returned, chain and unconfirmed set reloaded from storage equal memory; after a connection loss the node reconnects, converges and does not announce a processed height again. states = executions (stateless search: no state merging)"
	rep.Assumptions = append(peerAssumption, "scheduling points are the synchronisation operations of the rewritten sources (sync, channels, time, net); atomics are not scheduling points", "virtual clock: code takes zero time, the clock advances only when no thread is enabled")
	return rep.Finish()
}
