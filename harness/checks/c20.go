//go:build verif

package checks

import (
	"time"
	"bytes"
	"os"
	"encoding/binary"
	"encoding/json"
	"fmt"
	"runtime"
	"runtime/debug"
	"sort"
	"strings"

	"github.com/tokenized/pkg/bitcoin"
	"github.com/tokenized/pkg/wire"
	"github.com/tokenized/spynode/internal/platform/config"
	"github.com/tokenized/spynode/internal/storage"
	"github.com/tokenized/spynode/internal/verif/core"
	"github.com/tokenized/spynode/pkg/client"
)

// C20: hostile bytes into every decoder: no panic, allocation proportional to the input.
// Inputs are enumerated (valid encodings with every position overwritten by every hostile
// count/length in every width, with and without truncation; short strings behind every type
// code); decoders run in memory-limited workers (DESIGN §4 C20).

// A decoder under test: name + function that feeds bytes to it.
type c20Decoder struct {
	Name   string
	Decode func(b []byte) error
}

func c20ClientDecoder() c20Decoder {
	return c20Decoder{"client message", func(b []byte) error {
		var m client.Message
		return m.Deserialize(bytes.NewReader(b))
	}}
}

func c20StoredDecoders() []c20Decoder {
	ctx := core.Ctx()
	withKey := func(key string, b []byte) *core.RecStore {
		st := core.NewRecStore(true)
		st.Record = false
		st.Data[key] = b
		return st
	}
	cfg := config.Config{Net: bitcoin.MainNet}
	return []c20Decoder{
		{"stored peers file", func(b []byte) error {
			return storage.NewPeerRepository(withKey("spynode/peers", b)).Load(ctx)
		}},
		{"stored reorg record", func(b []byte) error {
			_, err := storage.NewReorgRepository(withKey("spynode/reorgs/active", b)).GetActive(ctx)
			return err
		}},
		{"stored unconfirmed file", func(b []byte) error {
			return storage.NewTxRepository(withKey("spynode/txs/unconfirmed", b)).Load(ctx)
		}},
		{"stored block tx file", func(b []byte) error {
			repo := storage.NewTxRepository(withKey("spynode/txs/00000005", b))
			_, err := repo.GetBlock(ctx, 5)
			if err == nil {
				repo.ReleaseBlock(ctx, 5)
			}
			return err
		}},
		{"stored tx state record", func(b []byte) error {
			var h bitcoin.Hash32
			_, err := storage.FetchTxState(ctx, withKey(fmt.Sprintf("spynode/txs/state/%s", h), b), h)
			return err
		}},
		{"stored block header file", func(b []byte) error {
			return storage.NewBlockRepository(cfg, withKey("spynode/blocks/00000000", b)).Load(ctx)
		}},
	}
}

// c20StoredSeeds produces valid stored records by letting the repositories write them.
func c20StoredSeeds() map[string][][]byte {
	ctx := core.Ctx()
	out := map[string][][]byte{}
	// peers
	{
		st := core.NewRecStore(true)
		p := storage.NewPeerRepository(st)
		p.Add(ctx, "10.1.2.3:8333")
		p.Add(ctx, "[2001:db8::1]:8333")
		p.UpdateScore(ctx, "10.1.2.3:8333", 5)
		p.Save(ctx)
		out["stored peers file"] = append(out["stored peers file"], st.Data["spynode/peers"])
	}
	// reorg
	{
		st := core.NewRecStore(true)
		r := storage.NewReorgRepository(st)
		h1, h2 := c15Header(1), c15Header(2)
		r.Save(ctx, &storage.Reorg{BlockHeight: 7, Blocks: []storage.ReorgBlock{{Header: h1, TxIds: []bitcoin.Hash32{c15Hash(1), c15Hash(2)}}, {Header: h2}}})
		out["stored reorg record"] = append(out["stored reorg record"], st.Data["spynode/reorgs/active"])
	}
	// unconfirmed
	{
		st := core.NewRecStore(true)
		t := storage.NewTxRepository(st)
		t.Add(ctx, c15Hash(1), true, false, -1)
		t.Add(ctx, c15Hash(2), false, true, -1)
		t.Save(ctx)
		out["stored unconfirmed file"] = append(out["stored unconfirmed file"], st.Data["spynode/txs/unconfirmed"])
		t.Add(ctx, c15Hash(3), true, true, 5)
		t.Add(ctx, c15Hash(4), true, true, 5)
		out["stored block tx file"] = append(out["stored block tx file"], st.Data["spynode/txs/00000005"])
	}
	// tx state: the Tx payload without the message type prefix
	for _, c := range c15Corpus(true) {
		if tx, ok := c.P.(*client.Tx); ok && len(out["stored tx state record"]) < 6 && tx.State.MerkleProof != nil {
			var b bytes.Buffer
			tx.Serialize(&b)
			out["stored tx state record"] = append(out["stored tx state record"], b.Bytes())
		}
	}
	// block headers
	{
		var b bytes.Buffer
		g := core.GenesisHeader()
		g.Serialize(&b)
		h := c15Header(1)
		h.Serialize(&b)
		out["stored block header file"] = append(out["stored block header file"], b.Bytes())
	}
	return out
}

var c20Counts = []uint64{0x100000, 0x7fffffff, 0x80000000, 0x100000000, 0x8000000000000000, 0xffffffffffffffff, 0xfc, 1, 0}

func varintBytes(v uint64) []byte {
	var b bytes.Buffer
	wire.WriteVarInt(&b, 0, v)
	return b.Bytes()
}

// hostileSplices: byte strings written over position p.
func hostileSplices() [][]byte {
	var out [][]byte
	for _, v := range c20Counts {
		out = append(out, varintBytes(v))
	}
	// non-canonical wide forms of small numbers and fixed-width little-endian counts
	out = append(out, []byte{0xfd, 0x01, 0x00}, []byte{0xfe, 0x00, 0x00, 0x01, 0x00}, []byte{0xff, 0, 0, 0, 0, 1, 0, 0, 0})
	for _, v := range []uint32{0xffffffff, 0x7fffffff, 0x80000000, 0x00100000} {
		b := make([]byte, 4)
		binary.LittleEndian.PutUint32(b, v)
		out = append(out, b)
	}
	return out
}

type c20Task struct {
	Decoder string `json:"decoder"`
	Seed    int    `json:"seed"`   // index of the seed encoding
	From    int    `json:"from"`   // mutant index range [From, To)
	To      int    `json:"to"`
	Mode    string `json:"mode"`   // splice | short
}

type c20Result struct {
	Evals      int              `json:"evals"`
	Errors     int              `json:"errors"` // inputs rejected with an error (the good outcome)
	Accepted   int              `json:"accepted"`
	Violations []core.Violation `json:"violations"`
	Total      int              `json:"total"` // number of mutants of this seed (for planning)
	Sample     interface{}      `json:"sample"`
	HungAt     int              `json:"hung_at"` // splice mode: index of the input whose decode never returned (-1: none); the task stopped there
}

func c20Seeds(decoder string) [][]byte {
	if decoder == "client message" {
		var out [][]byte
		seen := map[string]int{}
		for _, c := range c15Corpus(true) {
			if seen[c.Name] >= 4 { // up to four (boundary-rich) encodings per type
				continue
			}
			enc, err := c15Encode(c.P)
			if err != nil || len(enc) > 1500 {
				continue
			}
			// prefer values with list content: skip the first (usually empty) value when a richer one follows
			seen[c.Name]++
			out = append(out, enc)
		}
		return out
	}
	return c20StoredSeeds()[decoder]
}

func c20Mutant(seed []byte, idx int, splices [][]byte) ([]byte, string) {
	perPos := len(splices) * 2
	pos := idx / perPos
	k := idx % perPos
	sp := splices[k/2]
	var out []byte
	out = append(out, seed[:pos]...)
	out = append(out, sp...)
	desc := fmt.Sprintf("offset %d <- %x", pos, sp)
	if k%2 == 0 {
		if pos+1 <= len(seed) {
			out = append(out, seed[pos+1:]...)
		}
	} else {
		desc += " then truncated"
	}
	return out, desc
}

func c20Decoders() map[string]c20Decoder {
	m := map[string]c20Decoder{}
	d := c20ClientDecoder()
	m[d.Name] = d
	for _, x := range c20StoredDecoders() {
		m[x.Name] = x
	}
	return m
}

// c20Try decodes one input and reports panic / allocation.
func c20Try(dec c20Decoder, in []byte) (err error, pv interface{}, stk string, alloc uint64) {
	var m0, m1 runtime.MemStats
	runtime.ReadMemStats(&m0)
	done := make(chan struct{})
	go func() {
		defer close(done)
		defer func() {
			if r := recover(); r != nil {
				pv = r
				stk = string(debug.Stack())
			}
		}()
		err = dec.Decode(in)
	}()
	select {
	case <-done:
	case <-time.After(5 * time.Second):
		// "terminates returning either a value or an error": a decode of a few hundred bytes that is still
		// running after 5 s never returns. Its goroutine keeps spinning, so this worker is not reused.
		core.WorkerPoisoned = true
		buf := make([]byte, 1<<16)
		n := runtime.Stack(buf, true)
		return nil, "decoder does not return (still running after 5 s)", hangStack(string(buf[:n])), 0
	}
	runtime.ReadMemStats(&m1)
	alloc = m1.TotalAlloc - m0.TotalAlloc
	return
}

// allocSite re-runs the decode with full allocation profiling and names the function that
// allocated the most bytes.
func allocSite(dec c20Decoder, in []byte) string {
	old := runtime.MemProfileRate
	runtime.MemProfileRate = 1
	defer func() { runtime.MemProfileRate = old }()
	snapshot := func() map[string]int64 {
		runtime.GC()
		runtime.GC()
		n, _ := runtime.MemProfile(nil, true)
		recs := make([]runtime.MemProfileRecord, n+200)
		n, ok := runtime.MemProfile(recs, true)
		out := map[string]int64{}
		if !ok {
			return out
		}
		for _, r := range recs[:n] {
			frames := runtime.CallersFrames(r.Stack())
			name := ""
			for {
				f, more := frames.Next()
				if f.Function != "" && !strings.HasPrefix(f.Function, "runtime.") && !strings.Contains(f.Function, "/verif/") && !strings.HasPrefix(f.Function, "bytes.") && !strings.HasPrefix(f.Function, "io.") && !strings.HasPrefix(f.Function, "encoding/") {
					name = f.Function
					break
				}
				if !more {
					break
				}
			}
			out[name] += r.AllocBytes
		}
		return out
	}
	before := snapshot()
	func() {
		defer func() { recover() }()
		dec.Decode(in)
	}()
	after := snapshot()
	best, bestN := "unknown", int64(0)
	for k, v := range after {
		if d := v - before[k]; d > bestN && k != "" {
			best, bestN = k, d
		}
	}
	if i := strings.LastIndex(best, "/"); i >= 0 {
		best = best[i+1:]
	}
	return best
}

func allocBound(n int) uint64 { return uint64(512*n + 256*1024) }

func panicFunc(stk string) string {
	lines := strings.Split(stk, "\n")
	for i, l := range lines {
		if strings.HasPrefix(l, "panic(") {
			for j := i + 2; j < len(lines); j += 2 {
				f := lines[j]
				if strings.Contains(f, "runtime.") || strings.Contains(f, "/verif/") {
					continue
				}
				if k := strings.LastIndex(f, "("); k > 0 {
					f = f[:k]
				}
				if k := strings.LastIndex(f, "/"); k > 0 {
					f = f[k+1:]
				}
				return f
			}
		}
	}
	return "unknown"
}

func c20Exec(t c20Task) c20Result {
	var res c20Result
	dec := c20Decoders()[t.Decoder]
	seenViol := map[string]bool{}
	hung := false
	res.HungAt = -1
	report := func(in []byte, desc string, typeName string) {
		err, pv, stk, alloc := c20Try(dec, in)
		res.Evals++
		// TotalAlloc is process-wide: the worker's own plumbing (result encoding, timers) can allocate
		// during the measured call. Decoding is deterministic, so an over-allocation that is real shows
		// again; take the smallest of up to four measurements before holding it against the decoder.
		for i := 0; i < 3 && pv == nil && alloc > allocBound(len(in)); i++ {
			if _, pv2, _, a2 := c20Try(dec, in); pv2 == nil && a2 < alloc {
				alloc = a2
			}
		}
		var v *core.Violation
		switch {
		case pv != nil && strings.HasPrefix(fmt.Sprint(pv), "decoder does not return"):
			hung = true
			v = &core.Violation{Property: "C20", Clause: "decoder-terminates", Class: fmt.Sprintf("decoding does not terminate in %s", depSite(typeName, panicFuncAny(stk))),
				Detail: fmt.Sprintf("%s, %s: %v", typeName, desc, pv)}
		case pv != nil:
			msg := fmt.Sprint(pv)
			if len(msg) > 60 {
				msg = msg[:60]
			}
			msg = stripNumbers(msg)
			v = &core.Violation{Property: "C20", Clause: "no-panic", Class: fmt.Sprintf("panic in %s (%s)", depSite(typeName, panicFunc(stk)), msg),
				Detail: fmt.Sprintf("%s, %s: %v", typeName, desc, pv)}
		case alloc > allocBound(len(in)):
			site := allocSite(dec, in)
			v = &core.Violation{Property: "C20", Clause: "allocation-proportional", Class: fmt.Sprintf("allocation out of proportion in %s", depSite(typeName, site)),
				Detail: fmt.Sprintf("%s, %s: %d bytes allocated for %d input bytes (bound %d)", typeName, desc, alloc, len(in), allocBound(len(in)))}
		case err != nil:
			res.Errors++
		default:
			res.Accepted++
		}
		if v != nil && !seenViol[v.Key()] {
			seenViol[v.Key()] = true
			v.Witness = map[string]interface{}{"decoder": t.Decoder, "input": fmt.Sprintf("%x", in), "what": desc}
			res.Violations = append(res.Violations, *v)
		}
	}
	switch t.Mode {
	case "valid":
		// every well-formed encoding of the corpus, including lists longer than any pre-allocation clamp:
		// hostile bytes are also *long valid* bytes
		corpus := c15Corpus(true)
		for i := t.From; i < t.To && i < len(corpus); i++ {
			c := corpus[i]
			enc, err := c15Encode(c.P)
			if err != nil {
				continue
			}
			if t.Decoder == "client message" {
				report(enc, fmt.Sprintf("valid encoding of corpus value %d", i), c.Name)
			} else if tx, ok := c.P.(*client.Tx); ok && t.Decoder == "stored tx state record" {
				var b bytes.Buffer
				tx.Serialize(&b)
				report(b.Bytes(), fmt.Sprintf("valid stored record of corpus value %d", i), t.Decoder)
			}
		}
		res.Total = len(corpus)
	case "short":
		// every byte string of length <= 3 over a small alphabet behind every type code / as a whole record
		alpha := []byte{0x00, 0x01, 0x7f, 0x80, 0xfd, 0xfe, 0xff, 0x30}
		var prefixes [][]byte
		if t.Decoder == "client message" {
			for tc := uint64(0); tc < 200; tc++ {
				if client.PayloadForType(tc) != nil {
					prefixes = append(prefixes, varintBytes(tc))
				}
			}
		} else {
			prefixes = [][]byte{{}}
		}
		var rec func(cur []byte, depth int, name string)
		rec = func(cur []byte, depth int, name string) {
			report(cur, fmt.Sprintf("short string %x", cur), name)
			if depth == 0 {
				return
			}
			for _, a := range alpha {
				rec(append(append([]byte{}, cur...), a), depth-1, name)
			}
		}
		for i, p := range prefixes {
			if i < t.From || i >= t.To {
				continue
			}
			name := t.Decoder
			if t.Decoder == "client message" {
				tc, _ := wire.ReadVarInt(bytes.NewReader(p), 0)
				name = fmt.Sprintf("%T", client.PayloadForType(tc))
				name = strings.TrimPrefix(name, "*client.")
			}
			rec(p, t.Seed, name)
		}
		res.Total = len(prefixes)
	default:
		seeds := c20Seeds(t.Decoder)
		if t.Seed >= len(seeds) {
			return res
		}
		seed := seeds[t.Seed]
		splices := hostileSplices()
		res.Total = len(seed) * len(splices) * 2
		name := t.Decoder
		if t.Decoder == "client message" {
			var m client.Message
			if m.Deserialize(bytes.NewReader(seed)) == nil {
				name = strings.TrimPrefix(fmt.Sprintf("%T", m.Payload), "*client.")
			}
		}
		for i := t.From; i < t.To && i < res.Total; i++ {
			fmt.Fprintf(os.Stderr, "cur=%d\n", i) // lets the master attribute a killed worker to this input
			in, desc := c20Mutant(seed, i, splices)
			report(in, desc, name)
			if hung {
				res.HungAt = i // the rest of the range is run by a fresh worker
				break
			}
		}
		res.Sample = map[string]interface{}{"decoder": t.Decoder, "type": name, "seed_bytes": len(seed), "mutants": res.Total}
	}
	return res
}

func stripNumbers(s string) string {
	var sb strings.Builder
	for _, r := range s {
		if r >= '0' && r <= '9' {
			sb.WriteByte('#')
		} else {
			sb.WriteRune(r)
		}
	}
	return strings.ReplaceAll(sb.String(), "##", "#")
}

func init() {
	core.RegisterOp("c20", func(arg json.RawMessage) (interface{}, error) {
		var t c20Task
		if err := json.Unmarshal(arg, &t); err != nil {
			return nil, err
		}
		return c20Exec(t), nil
	})
	All["C20"] = runC20
	Replayers["C20"] = func(wit json.RawMessage) []core.Violation {
		var x struct {
			Decoder string `json:"decoder"`
			Input   string `json:"input"`
		}
		json.Unmarshal(wit, &x)
		var in []byte
		fmt.Sscanf(x.Input, "%x", &in)
		dec := c20Decoders()[x.Decoder]
		err, pv, _, alloc := c20Try(dec, in)
		if pv != nil || alloc > allocBound(len(in)) {
			return []core.Violation{{Property: "C20", Clause: "replay", Class: "still fails", Detail: fmt.Sprintf("err=%v panic=%v alloc=%d", err, pv, alloc)}}
		}
		return nil
	}
}

func runC20() int {
	rep := core.NewReport("C20", "model_checking")
	pool := core.NewPool()
	pool.TaskTimeout = 2 * time.Minute // a task is a few thousand decodes (seconds); a decoder that never returns is a violation, not a reason to wait
	pool.MemKB = 3 << 20 // 3 GB of address space per worker: an allocation bomb kills the worker, not the check
	pool.Recycle = 50
	names := []string{}
	for n := range c20Decoders() {
		names = append(names, n)
	}
	sort.Strings(names)
	shortDepth := 3
	if rep.Thorough() {
		shortDepth = 4
	}
	var tasks []c20Task
	for _, n := range names {
		nseeds := len(c20Seeds(n))
		for s := 0; s < nseeds; s++ {
			seedLen := len(c20Seeds(n)[s])
			total := seedLen * len(hostileSplices()) * 2
			chunk := 2500
			for from := 0; from < total; from += chunk {
				tasks = append(tasks, c20Task{Decoder: n, Seed: s, From: from, To: from + chunk, Mode: "splice"})
			}
		}
		if n == "client message" || n == "stored tx state record" {
			nc := len(c15Corpus(true))
			for i := 0; i < nc; i += 60 {
				tasks = append(tasks, c20Task{Decoder: n, From: i, To: i + 60, Mode: "valid"})
			}
		}
		if n == "client message" {
			for i := 0; i < 37; i += 3 {
				tasks = append(tasks, c20Task{Decoder: n, Seed: shortDepth, From: i, To: i + 3, Mode: "short"})
			}
		} else {
			tasks = append(tasks, c20Task{Decoder: n, Seed: shortDepth + 1, From: 0, To: 1, Mode: "short"})
		}
	}
	evals, rejected, accepted := 0, 0, 0
	var run func(ts []c20Task, depth int)
	run = func(ts []c20Task, depth int) {
		args := make([]interface{}, len(ts))
		for i := range ts {
			args[i] = ts[i]
		}
		var died []c20Task
		pool.Map("c20", args, func(i int, r core.TaskResult) {
			if r.Died != "" || r.Err != "" {
				t := ts[i]
				if t.Mode == "splice" && t.To-t.From > 1 {
					// the worker announces each input on stderr before decoding it
					cur := -1
					if k := strings.LastIndex(r.Stderr, "cur="); k >= 0 {
						fmt.Sscanf(r.Stderr[k:], "cur=%d", &cur)
					}
					if cur >= t.From && cur < t.To {
						one, rest := t, t
						one.From, one.To = cur, cur+1
						rest.From = cur + 1
						died = append(died, one)
						if rest.From < rest.To {
							died = append(died, rest)
						}
						// the part before cur completed inside the dead worker but its counts were lost
						if cur > t.From {
							pre := t
							pre.To = cur
							died = append(died, pre)
						}
						return
					}
					mid := (t.From + t.To) / 2
					a, b := t, t
					a.To, b.From = mid, mid
					died = append(died, a, b)
					return
				}
				what := "?"
				if t.Mode == "splice" {
					seeds := c20Seeds(t.Decoder)
					if t.Seed < len(seeds) && t.From < len(seeds[t.Seed])*len(hostileSplices())*2 {
						in, desc := c20Mutant(seeds[t.Seed], t.From, hostileSplices())
						what = fmt.Sprintf("%s (input %x)", desc, trunc(in))
					} else {
						return
					}
				}
				fmsg, fsite := core.FatalSite(r.Stderr)
				if fsite == "" {
					fsite = "unknown site"
				}
				rep.AddViolation(core.Violation{Property: "C20", Clause: "decoder-survives", Class: fmt.Sprintf("process killed (%s) in %s", strings.TrimPrefix(fmsg, "fatal error: "), depSite(t.Decoder, fsite)),
					Detail: fmt.Sprintf("%s seed %d: %s: %s%s %s", t.Decoder, t.Seed, what, r.Died, r.Err, fmsg), Witness: t})
				return
			}
			var res c20Result
			res.HungAt = -1
			json.Unmarshal(r.Res, &res)
			if res.HungAt >= 0 && ts[i].Mode == "splice" && res.HungAt+1 < ts[i].To {
				rest := ts[i]
				rest.From = res.HungAt + 1
				died = append(died, rest)
			}
			evals += res.Evals
			rejected += res.Errors
			accepted += res.Accepted
			for _, v := range res.Violations {
				rep.AddViolation(v)
			}
			if res.Sample != nil && i%23 == 0 {
				rep.AddSample(res.Sample)
			}
		})
		if len(died) > 0 && depth < 400 {
			run(died, depth+1)
		}
	}
	run(tasks, 0)
	rep.Outcome(fmt.Sprintf("rejected=%d", rejected))
	rep.Outcome(fmt.Sprintf("accepted=%d", accepted))
	rep.Coverage["evaluations"] = evals
	rep.Coverage["distinct_nontrivial"] = evals
	rep.Coverage["inputs_rejected_with_error"] = rejected
	rep.Coverage["inputs_decoded"] = accepted
	rep.Coverage["states"] = evals
	rep.Coverage["transitions"] = evals
	rep.Coverage["traces_validated_against_impl"] = evals
	rep.Coverage["rule"] = fmt.Sprintf("enumeration: for up to 4 boundary-rich valid encodings of each of the 37 client payload types and for valid stored records (peers, reorg, unconfirmed, block tx file, tx state, block headers) EVERY byte offset is overwritten by each of %d hostile counts/lengths (varints 2^16, 2^31-1, 2^31, 2^32, 2^63, 2^64-1, 0xfc, 1, 0; non-canonical wide forms; 32-bit little-endian 2^32-1, 2^31-1, 2^31, 2^16), once keeping the tail and once truncated; plus every byte string of length <= %d over {00,01,7f,80,fd,fe,ff,30} behind every type code. Each input is decoded in a worker with a 3 GB address-space limit; oracle: no panic, bytes allocated (runtime counters) <= 64*len+32KiB, worker survives (a killed worker is bisected to the single input). distinct = inputs (all distinct by construction)", len(hostileSplices()), shortDepth)
	rep.Assumptions = []string{"allocation is measured with runtime.MemStats.TotalAlloc around the call (includes transient allocations; minimum of up to four measurements when the bound is exceeded, because the counter is process-wide)"}
	return rep.Finish()
}

// depSite names a failure site: functions of tokenized/spynode are qualified with the decoded
// type, functions of dependencies (tokenized/pkg wire, bitcoin, bsor, ...) stand for themselves.
func depSite(typeName, fn string) string {
	if strings.HasPrefix(fn, "client.") || strings.HasPrefix(fn, "storage.") || strings.HasPrefix(fn, "spynode.") || strings.HasPrefix(fn, "state.") || strings.HasPrefix(fn, "handlers.") || fn == "unknown" || fn == "unknown site" {
		return typeName + " / " + fn
	}
	return "dependency " + fn
}

// hangStack picks, from a dump of all goroutines, the one that is inside a decoder (not the watchdog).
func hangStack(all string) string {
	for _, g := range strings.Split(all, "\n\n") {
		if strings.Contains(g, "Deserialize") || strings.Contains(g, ".Load(") || strings.Contains(g, "BtcDecode") || strings.Contains(g, "readPeer") {
			if !strings.Contains(g, "runtime.Stack") {
				return g
			}
		}
	}
	return all
}

// panicFuncAny names the innermost non-runtime function of a goroutine dump.
func panicFuncAny(stk string) string {
	for _, l := range strings.Split(stk, "\n") {
		l = strings.TrimSpace(l)
		if l == "" || strings.HasPrefix(l, "goroutine ") || strings.HasPrefix(l, "/") || strings.HasPrefix(l, "runtime.") || strings.Contains(l, "/verif/") || strings.HasPrefix(l, "bytes.") || strings.HasPrefix(l, "io.") {
			continue
		}
		if k := strings.LastIndex(l, "("); k > 0 {
			l = l[:k]
		}
		if k := strings.LastIndex(l, "/"); k > 0 {
			l = l[k+1:]
		}
		return l
	}
	return "unknown"
}
