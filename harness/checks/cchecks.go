//go:build verif

package checks

import (
	"encoding/json"
	"fmt"
	"strconv"
	"strings"
	"time"

	"github.com/pkg/errors"
	"github.com/tokenized/pkg/wire"
	"github.com/tokenized/spynode/internal/verif/core"
	"github.com/tokenized/spynode/pkg/client"
)

// History model and oracles for the remote client properties C16 (request/response correlation),
// C17 (notification order by message id) and C18 (server authentication, handshake gating).

type cParams struct {
	Prop   string    `json:"prop"`
	Cfg    CWorldCfg `json:"cfg"`
	Events []string  `json:"events"`
	Replay bool      `json:"replay"` // server replays its notification log from the id given in Ready
	Preload int      `json:"preload"` // notifications already in the server's log when the client connects
	ExtraDepth int   `json:"extra_depth,omitempty"` // explore this scenario deeper than the check's base depth
	Prefix []string  `json:"prefix,omitempty"` // events applied before the explored history (a non-initial start state)
}

type noteRec struct {
	kind string
	id   uint64
}

func (w *CWorld) applyEvent(ev string, p cParams) bool {
	w.hist = append(w.hist, ev)
	if traceOn {
		w.trace = append(w.trace, fmt.Sprintf("[%8.3f] EVENT %s", float64(w.S.Now)/1e9, ev))
	}
	f := strings.Split(ev, ":")
	sc := w.cur()
	alive := sc != nil && !sc.conn.IsClosed() && !sc.conn.Peer.IsClosed()
	switch f[0] {
	case "accept":
		if !alive || sc.register == nil || sc.acceptSent != "" {
			return false
		}
		w.Accept(sc, f[1])
		w.settle()
	case "call":
		w.Call(f[1], f[2])
		w.settle()
	case "ans":
		i, _ := strconv.Atoi(f[1])
		k := -1
		for j, r := range w.reqs {
			if r.Answered == "" {
				if i == 0 {
					k = j
					break
				}
				i--
			}
		}
		if k < 0 || !alive {
			return false
		}
		w.Answer(k, f[2])
		w.settle()
	case "unsol":
		if !alive {
			return false
		}
		switch f[1] {
		case "basetx":
			w.sendTo(sc, &client.BaseTx{Tx: c15Tx(2, 2, 5)})
		case "accept":
			h := keyHash("7e")
			w.sendTo(sc, &client.Accept{MessageType: client.MessageTypeSendTx, Hash: &h})
		case "reject":
			h := keyHash("7d")
			w.sendTo(sc, &client.Reject{MessageType: client.MessageTypeGetTx, Hash: &h, Code: client.RejectCodeInvalid, Message: "unsolicited"})
		case "header":
			w.sendTo(sc, &client.Header{Header: c15Header(150), BlockHeight: 9})
		}
		w.settle()
	case "note": // note:<tx|upd|hdrs|insync>[:<id offset>]
		if !alive || (w.cfg.ConnType == client.ConnectionTypeFull && !sc.readyGot) {
			return false // a server only streams to a connection that declared ready
		}
		w.serverNote(sc, f[1], f[2:], p)
		w.settle()
	case "drop":
		if !alive {
			return false
		}
		sc.conn.Close()
		w.settle()
	case "addhandler": // the application registers one more handler while the client is running
		if w.Late != nil {
			return false
		}
		w.Late = &cRec{w: w, id: 2}
		w.lateFrom = len(w.H[0].events)
		w.C.RegisterHandler(w.Late)
		w.settle()
	case "wfail": // half-open connection: the client's next write fails, its reads keep waiting
		if !alive || sc.conn.Peer.WriteFail {
			return false
		}
		sc.conn.Peer.WriteFail = true
		w.wfails++
		w.settle()
	case "ready":
		n, _ := strconv.ParseUint(f[1], 10, 64)
		c := w.C
		w.readyCalls = append(w.readyCalls, n)
		w.Call2("ready", func() error { return c.Ready(core.Ctx(), n) })
		w.settle()
	case "tick":
		ms, _ := strconv.Atoi(f[1])
		w.Tick(time.Duration(ms) * time.Millisecond)
	case "stop":
		if w.interrupt.Len() > 0 || w.runDone {
			return false
		}
		w.interrupt.TrySend(nil)
		w.settle()
	default:
		panic("unknown client event " + ev)
	}
	if p.Replay {
		w.replayIfReady()
		w.settle()
	}
	return true
}

// Call2 runs f as an application thread and records it as a call of the given kind.
func (w *CWorld) Call2(kind string, f func() error) *cCall {
	call := &cCall{Kind: kind, Start: w.S.Now}
	w.calls = append(w.calls, call)
	t := goEnv("App."+kind, func() {
		call.Err = f()
		call.Done, call.End = true, w.S.Now
	})
	t.Env = false
	call.Thread = t
	return call
}

// serverNote sends a notification. Ids: by default the next id the server has not used; the
// optional argument picks an adversarial id relative to that (same = repeat of the last id,
// skip = next+1, old = next-2, far = next+1000).
func (w *CWorld) serverNote(sc *sConn, kind string, arg []string, p cParams) {
	next := w.serverNextID()
	id := next
	mode := ""
	if len(arg) > 0 {
		mode = arg[0]
	}
	switch mode {
	case "same":
		if next > 1 {
			id = next - 1
		}
	case "skip":
		id = next + 1
	case "old":
		if next > 2 {
			id = next - 2
		}
	case "far":
		id = next + 1000
	}
	var pl client.MessagePayload
	switch kind {
	case "tx":
		pl = &client.Tx{ID: id, Tx: c15Tx(1, 1, 2), Outputs: []*wire.TxOut{wire.NewTxOut(5, nil)}}
	case "upd":
		pl = &client.TxUpdate{ID: id, TxID: keyHash("31")}
	case "hdrs":
		h := c15Header(int(next) % 100)
		pl = &client.Headers{RequestHeight: 0, StartHeight: uint32(1000 + len(w.sent)), Headers: []*wire.BlockHeader{&h}}
		id = uint64(1000 + len(w.sent))
	case "insync":
		pl = &client.InSync{}
		id = 0
	}
	if mode == "" && (kind == "tx" || kind == "upd") {
		w.noteLog = append(w.noteLog, noteRec{kind, id})
	}
	k := map[string]string{"tx": "tx", "upd": "update", "hdrs": "headers", "insync": "insync"}[kind]
	w.sent = append(w.sent, sentNote{Kind: k, ID: id, At: w.S.Now, Conn: sc.idx})
	w.sendTo(sc, pl)
}

func (w *CWorld) serverNextID() uint64 {
	base := w.noteBase
	return base + uint64(len(w.noteLog))
}

// replayIfReady: a replaying server resends its log from the id the client declared in Ready.
func (w *CWorld) replayIfReady() {
	sc := w.cur()
	if sc == nil || !sc.readyGot || sc.replayed || sc.conn.IsClosed() || sc.conn.Peer.IsClosed() {
		return
	}
	sc.replayed = true
	for _, n := range w.noteLog {
		if n.id >= sc.readyNext {
			var pl client.MessagePayload
			if n.kind == "tx" {
				pl = &client.Tx{ID: n.id, Tx: c15Tx(1, 1, 2), Outputs: []*wire.TxOut{wire.NewTxOut(5, nil)}}
			} else {
				pl = &client.TxUpdate{ID: n.id, TxID: keyHash("31")}
			}
			k := map[string]string{"tx": "tx", "upd": "update"}[n.kind]
			w.sent = append(w.sent, sentNote{Kind: k, ID: n.id, At: w.S.Now, Conn: sc.idx})
			w.sendTo(sc, pl)
		}
	}
}

func (w *CWorld) eventEnabled(ev string) bool {
	f := strings.Split(ev, ":")
	sc := w.cur()
	alive := sc != nil && !sc.conn.IsClosed() && !sc.conn.Peer.IsClosed()
	switch f[0] {
	case "accept":
		return alive && sc.register != nil && sc.acceptSent == ""
	case "ans":
		i, _ := strconv.Atoi(f[1])
		n := 0
		for _, r := range w.reqs {
			if r.Answered == "" {
				n++
			}
		}
		return alive && n > i
	case "drop": // also between the registration and the accept
		return alive && (sc.acceptSent != "" || sc.register != nil)
	case "unsol", "note":
		return alive && sc.acceptSent != ""
	case "wfail":
		return alive && sc.acceptSent != "" && !sc.conn.Peer.WriteFail && w.wfails < 1
	case "addhandler":
		return w.Late == nil
	case "call":
		n := 0
		for _, c := range w.calls {
			if c.Kind == f[1] && c.Key == f[2] {
				if !c.Done {
					return false // one call per (kind,key) at a time ...
				}
				n++
			}
		}
		return n < 2 // ... and one retry after it returned
	case "ready":
		return alive && sc.acceptSent == "valid" && !sc.readyGot && !w.autoReady
	case "stop":
		return !w.runDone && w.interrupt.Len() == 0
	}
	return true
}

type cRun struct {
	w       *CWorld
	key     string
	enabled []string
	outcome string
}

func runCHist(p cParams, hist []string, final bool) *cRun {
	w := NewCWorld(p.Cfg)
	w.noteBase = 1
	if p.Cfg.FirstReady > 0 {
		w.noteBase = p.Cfg.FirstReady
	}
	r := &cRun{w: w}
	w.replay = p.Replay
	w.preload(p.Preload)
	w.Start()
	w.Tick(10 * time.Millisecond)
	for _, ev := range append(append([]string{}, p.Prefix...), hist...) {
		if len(w.viol) > 0 || w.livelock || len(w.S.Panics()) > 0 {
			break
		}
		w.applyEvent(ev, p)
	}
	w.PanicViolations(p.Prop)
	if len(w.viol) == 0 {
		r.key = w.Key()
		for _, ev := range p.Events {
			if w.eventEnabled(ev) {
				r.enabled = append(r.enabled, ev)
			}
		}
		if final {
			w.cFinal(p)
		}
	}
	done := 0
	for _, c := range w.calls {
		if c.Done {
			done++
		}
	}
	r.outcome = fmt.Sprintf("conns=%d calls=%d/%d delivered=%d run=%v", len(w.conns), done, len(w.calls), len(w.H[0].events), w.runDone)
	return r
}

// cFinal: let every pending call finish (virtual time past the request and message time-outs),
// then evaluate the oracles.
func (w *CWorld) cFinal(p cParams) {
	for i := 0; i < 8 && !w.allCallsDone(); i++ {
		w.Tick(p.Cfg.RequestTimeout/2 + 7*time.Second)
	}
	if p.Replay {
		for i := 0; i < 3; i++ { // allow a reconnect (retry delay 2 s) and the replay
			w.Tick(2500 * time.Millisecond)
		}
	}
	w.PanicViolations(p.Prop)
	if len(w.viol) > 0 {
		return
	}
	w.oracleCalls()
	w.oracleNotifications(p)
	w.oracleHandshake()
}

func (w *CWorld) allCallsDone() bool {
	for _, c := range w.calls {
		if !c.Done {
			return false
		}
	}
	return true
}

// oracleCalls (C16 + the "never reported as sent without having been written" clause of C18).
func (w *CWorld) oracleCalls() {
	timeout := int64(w.cfg.RequestTimeout)
	used := map[*sReq]bool{}
	for _, c := range w.calls {
		if c.Kind == "subscribe" {
			// a subscription call returns as soon as its message counts as sent
			if c.Done && c.Err == nil {
				got := false
				for _, sc := range w.conns {
					for i, m := range sc.recv {
						if _, ok := m.(*client.SubscribePushData); ok && sc.recvAt[i] >= c.Start {
							got = true
						}
					}
				}
				if !got {
					w.fail("C18", "sent-means-written", "call succeeded although its request never reached the server (subscribe)", fmt.Sprintf("subscribe issued at %d ms returned nil; no connection of the server ever received a subscription message", c.Start/1e6))
				}
			}
			continue
		}
		if c.Kind == "ready" {
			continue
		}
		if !c.Done {
			w.fail("C16", "call-returns", "call never returned ("+c.Kind+")", fmt.Sprintf("%s:%s started at %d ms", c.Kind, c.Key, c.Start/1e6))
			continue
		}
		var r *sReq
		for _, x := range w.reqs {
			if !used[x] && x.Kind == c.Kind && x.Key == c.serverKey() && x.At >= c.Start {
				r = x
				break
			}
		}
		if r != nil {
			used[r] = true
		}
		cause := errors.Cause(c.Err)
		if c.Err == nil && r == nil {
			w.fail("C18", "sent-means-written", "call succeeded although its request never reached the server ("+c.Kind+")", fmt.Sprintf("%s:%s returned nil", c.Kind, c.Key))
			continue
		}
		if r != nil && r.Answered == "proper" && c.Err == nil && c.Result != expectedResult(c) {
			w.fail("C16", "response-reaches-its-call", "call returned another request's response ("+c.Kind+")", fmt.Sprintf("%s:%s returned %q, want %q", c.Kind, c.Key, c.Result, expectedResult(c)))
			continue
		}
		// the request time-out runs from the moment the request was handed to the connection (a call
		// issued before the handshake completed waits for it first)
		base := c.Start
		if r != nil && r.At > base {
			base = r.At
		}
		if r != nil && r.Answered != "" && r.AnsAt-base >= timeout-int64(time.Second) {
			continue // answered around or after the time-out: either outcome is legitimate
		}
		if r != nil && r.At > c.End && c.Err != nil && cause == client.ErrTimeout {
			continue // the call gave up (message time-out) before its queued request was written at all
		}
		// Responses carry no request id, only the key. When the server also answered another request of
		// the same kind and key while this call was pending (a request of an earlier call that had given
		// up but whose message was still written), either answer legitimately completes this call.
		if sib := w.siblingAnswered(c, r); sib != nil && r != nil && r.Answered != "" && r.Answered != sib.Answered {
			if c.Err == nil && c.Result != expectedResult(c) {
				w.fail("C16", "response-reaches-its-call", "call returned another request's response ("+c.Kind+")", fmt.Sprintf("%s:%s returned %q, want %q", c.Kind, c.Key, c.Result, expectedResult(c)))
			} else if re, ok := cause.(client.RejectError); ok && re.Description != "no:"+r.Kind+":"+r.Key {
				w.fail("C16", "reject-surfaces", "reject error carries another request's code/message ("+c.Kind+")", fmt.Sprintf("%s:%s got reject %q, want %q", c.Kind, c.Key, re.Description, "no:"+r.Kind+":"+r.Key))
			}
			continue
		}
		switch {
		case r != nil && r.Answered == "proper" && r.AnsAt-base < timeout && !w.droppedBetween(r.At, r.AnsAt):
			want := expectedResult(c)
			if c.Err != nil {
				cls := "answered call failed (" + c.Kind + ")"
				if cause == client.ErrTimeout {
					cls = "answered call timed out (" + c.Kind + ")"
				}
				w.fail("C16", "response-reaches-its-call", cls, fmt.Sprintf("%s:%s was answered by the server %d ms after the request reached it but returned %v", c.Kind, c.Key, (r.AnsAt-base)/1e6, c.Err))
			} else if c.Result != want {
				w.fail("C16", "response-reaches-its-call", "call returned another request's response ("+c.Kind+")", fmt.Sprintf("%s:%s returned %q, want %q", c.Kind, c.Key, c.Result, want))
			}
		case r != nil && r.Answered == "reject" && r.AnsAt-base < timeout && !w.droppedBetween(r.At, r.AnsAt):
			re, ok := cause.(client.RejectError)
			if !ok {
				if c.Kind == "getheaders" || c.Kind == "feequotes" {
					continue // rejects without a hash cannot be correlated by design of the protocol
				}
				w.fail("C16", "reject-surfaces", "rejected call did not return a reject error ("+c.Kind+")", fmt.Sprintf("%s:%s was rejected by the server but returned %v", c.Kind, c.Key, c.Err))
			} else if re.Code != client.RejectCodeNotFound || re.Description != "no:"+r.Kind+":"+r.Key {
				w.fail("C16", "reject-surfaces", "reject error carries another request's code/message ("+c.Kind+")", fmt.Sprintf("%s:%s got reject %q, want %q", c.Kind, c.Key, re.Description, "no:"+r.Kind+":"+r.Key))
			}
		default:
			// Responses carry no request id, only the key: a late answer to an earlier call with the
			// same kind and key that arrives while this call is pending answers this call just as well.
			sibling := false
			for _, x := range w.reqs {
				if x != r && x.Kind == c.Kind && x.Key == c.serverKey() && x.Answered != "" && x.AnsAt >= c.Start && x.AnsAt <= c.End {
					sibling = true
				}
			}
			if sibling {
				if c.Err == nil && c.Result != expectedResult(c) {
					w.fail("C16", "response-reaches-its-call", "call returned another request's response ("+c.Kind+")", fmt.Sprintf("%s:%s returned %q, want %q", c.Kind, c.Key, c.Result, expectedResult(c)))
				}
				continue
			}
			if r != nil && r.Answered != "" {
				continue // answered, but a connection drop is in play: the answer may or may not have got through
			}
			// no (timely) answer: must time out at the request time-out without disturbing others
			if c.Err == nil {
				w.fail("C16", "unanswered-times-out", "unanswered call returned success ("+c.Kind+")", fmt.Sprintf("%s:%s returned %q although the server never answered it", c.Kind, c.Key, c.Result))
			} else if _, isRej := cause.(client.RejectError); isRej {
				w.fail("C16", "response-reaches-its-call", "unanswered call got a reject meant for another request ("+c.Kind+")", fmt.Sprintf("%s:%s: %v", c.Kind, c.Key, c.Err))
			} else if cause == client.ErrTimeout && r != nil && c.End-base > timeout+int64(2*time.Second) && !w.anyDrop() {
				w.fail("C16", "unanswered-times-out", "time-out much later than the configured request time-out", fmt.Sprintf("%s:%s timed out %d ms after its request reached the server (request time-out %d ms)", c.Kind, c.Key, (c.End-base)/1e6, timeout/1e6))
			}
		}
	}
}

func (w *CWorld) siblingAnswered(c *cCall, r *sReq) *sReq {
	for _, x := range w.reqs {
		if x != r && x.Kind == c.Kind && x.Key == c.serverKey() && x.Answered != "" && x.AnsAt >= c.Start && x.AnsAt <= c.End {
			return x
		}
	}
	return nil
}

func (w *CWorld) droppedBetween(a, b int64) bool {
	return w.anyDrop()
}

func (w *CWorld) anyDrop() bool {
	for _, sc := range w.conns {
		if sc.conn.IsClosed() {
			return true
		}
	}
	return len(w.conns) > 1
}

func expectedResult(c *cCall) string {
	switch c.Kind {
	case "gettx":
		n, _ := strconv.ParseUint(c.Key, 16, 32)
		return "tx:" + fmt.Sprint(n)
	case "getheaders":
		return "headers:" + c.Key
	case "getheader":
		hd := cHeaderFor(c.Key)
		return "header:" + hashKey(*hd.BlockHash())
	case "feequotes":
		return "feequotes"
	}
	return "accept"
}

// oracleNotifications (C17).
func (w *CWorld) oracleNotifications(p cParams) {
	if len(w.readyCalls) == 0 {
		for _, e := range w.H[0].events {
			if e.Kind == "tx" || e.Kind == "update" {
				w.fail("C17", "ids-from-declared-start", "notification delivered before ready was declared", fmt.Sprintf("%s id %d", e.Kind, e.ID))
				return
			}
		}
		return
	}
	expected := w.readyCalls[0]
	for _, e := range w.H[0].events {
		if e.Kind != "tx" && e.Kind != "update" {
			continue
		}
		if e.ID != expected {
			cls := "id skipped"
			if e.ID < expected {
				cls = "id delivered again"
			}
			w.fail("C17", "consecutive-ids", cls+" ("+e.Kind+")", fmt.Sprintf("handler got %s with id %d, expected id %d (declared start %d)", e.Kind, e.ID, expected, w.readyCalls[0]))
			return
		}
		expected++
	}
	if !w.runDone {
		delivered := 0
		for _, e := range w.H[0].events {
			if e.Kind == "tx" || e.Kind == "update" {
				delivered++
			}
		}
		if got := w.C.NextMessageID(); got != expected && !(delivered == 0 && got == 1) {
			if !(expected == w.readyCalls[0] && w.lastReadyPending()) {
				w.fail("C17", "next-id-is-last-plus-one", "NextMessageID differs from last delivered + 1", fmt.Sprintf("NextMessageID()=%d, last delivered id %d", got, expected-1))
			}
		}
	}
	for i, rc := range w.readyCalls[1:] {
		_ = i
		if rc > expected {
			w.fail("C17", "resume-point", "ready declared beyond the last delivered id", fmt.Sprintf("Ready(%d) declared but only ids below %d were delivered", rc, expected))
		}
	}
	// both handlers, same order
	a, b := w.H[0].events, w.H[1].events
	if len(a) != len(b) {
		w.fail("C17", "every-handler-same-order", "handlers got different numbers of notifications", fmt.Sprintf("%d vs %d", len(a), len(b)))
	} else {
		for i := range a {
			if a[i].Kind != b[i].Kind || a[i].ID != b[i].ID {
				w.fail("C17", "every-handler-same-order", "handlers got different sequences", fmt.Sprintf("position %d: %s%d vs %s%d", i, a[i].Kind, a[i].ID, b[i].Kind, b[i].ID))
				break
			}
		}
	}
	// a handler registered later receives everything from then on
	if w.Late != nil {
		rest := a
		if w.lateFrom <= len(a) {
			rest = a[w.lateFrom:]
		}
		l := w.Late.events
		if len(l) != len(rest) {
			w.fail("C17", "every-handler-same-order", "a handler registered while running missed notifications", fmt.Sprintf("handler 0 received %d notifications after the registration, the late handler %d", len(rest), len(l)))
		} else {
			for i := range rest {
				if rest[i].Kind != l[i].Kind || rest[i].ID != l[i].ID {
					w.fail("C17", "every-handler-same-order", "handlers got different sequences (late handler)", fmt.Sprintf("position %d: %s%d vs %s%d", i, rest[i].Kind, rest[i].ID, l[i].Kind, l[i].ID))
					break
				}
			}
		}
	}
	// server order: delivered notifications appear in the order the server sent them
	pos := 0
	for _, e := range a {
		if strings.HasPrefix(e.Kind, "message") {
			continue
		}
		found := false
		for pos < len(w.sent) {
			s := w.sent[pos]
			pos++
			if s.Kind == e.Kind && s.ID == e.ID {
				found = true
				break
			}
		}
		if !found {
			w.fail("C17", "server-order", "notifications delivered out of the server's order ("+e.Kind+")", fmt.Sprintf("%s %d was delivered after something the server sent later", e.Kind, e.ID))
			break
		}
	}
	// with a replaying server and a live, ready connection at the end: every id exactly once
	if p.Replay && !w.runDone {
		sc := w.cur()
		if sc != nil && sc.readyGot && !sc.conn.IsClosed() && sc.replayed {
			want := w.noteBase + uint64(len(w.noteLog))
			if expected != want && w.readyCalls[0] == w.noteBase {
				w.fail("C17", "no-notification-missed", "a replaying server's notifications were not all delivered", fmt.Sprintf("server log has ids %d..%d, client delivered up to %d", w.noteBase, want-1, expected-1))
			}
		}
	}
}

func (w *CWorld) lastReadyPending() bool {
	sc := w.cur()
	return sc == nil || !sc.readyGot
}

// oracleHandshake (C18).
func (w *CWorld) oracleHandshake() {
	badAccept := false
	var badAt int64
	for _, sc := range w.conns {
		for i, tp := range sc.preHandshake {
			if !client.IsHandshakeType(tp) && tp != client.MessageTypeRegister {
				w.fail("C18", "only-handshake-types-before-handshake", "request written before the handshake completed ("+client.NameForMessageType(tp)+")", fmt.Sprintf("connection %d, message %d of type %s arrived before accept/ready", sc.idx, i, client.NameForMessageType(tp)))
			}
		}
		if sc.acceptSent != "" && sc.acceptSent != "valid" {
			badAccept, badAt = true, sc.acceptAt
			_ = badAt
			for _, e := range w.H[0].events {
				if e.At >= sc.acceptAt && e.Conn == sc.idx {
					w.fail("C18", "forged-accept-no-data", "handler notified after a forged accept ("+sc.acceptSent+")", fmt.Sprintf("%s at %d ms on connection %d", e.Kind, e.At/1e6, sc.idx))
					break
				}
			}
		}
	}
	if badAccept {
		last := w.cur()
		if last.acceptSent != "valid" && last.acceptSent != "" {
			if w.C.IsAccepted(core.Ctx()) {
				w.fail("C18", "forged-accept-rejected", "connection treated as accepted after a forged accept ("+last.acceptSent+")", "IsAccepted() = true")
			}
			if !w.runDone {
				w.fail("C18", "forged-accept-fails-connection", "Run keeps going after a forged accept ("+last.acceptSent+")", "Run did not return")
			} else if w.runErr == nil {
				w.fail("C18", "forged-accept-fails-connection", "Run ended without error after a forged accept ("+last.acceptSent+")", "nil error")
			}
		}
	}
}

func cExpand(params json.RawMessage, hist []string) []core.Succ {
	var p cParams
	json.Unmarshal(params, &p)
	base := runCHist(p, hist, false)
	base.w.Close()
	if len(base.w.viol) > 0 {
		return nil
	}
	var out []core.Succ
	for _, ev := range base.enabled {
		h2 := append(append([]string(nil), hist...), ev)
		r := runCHist(p, h2, true)
		s := core.Succ{Event: ev, Key: r.key, Outcome: r.outcome}
		if len(r.w.viol) > 0 {
			for i := range r.w.viol {
				if m, ok := r.w.viol[i].Witness.(map[string]interface{}); ok {
					m["params"] = p
				}
			}
			s.Violations, s.Terminal = r.w.viol, true
		}
		r.w.Close()
		out = append(out, s)
	}
	return out
}

func init() {
	core.RegisterExpander("chist", cExpand)
}

func (w *CWorld) preload(n int) {
	for i := 0; i < n; i++ {
		kind := "tx"
		if i%2 == 1 {
			kind = "upd"
		}
		w.noteLog = append(w.noteLog, noteRec{kind, w.noteBase + uint64(i)})
	}
}
