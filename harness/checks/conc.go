//go:build verif

package checks

// Component-level interleaving exploration: a handful of threads, each running a short program of
// real operations on one real object, under the cooperative scheduler with *every* scheduling
// point (mutex, channel, atomic, storage operation) turned into a choice. The explorer enumerates
// the interleavings depth first with a bound on pre-emptions (iterative context bounding) and
// hands every complete execution to an oracle. The oracle used by the callers is differential:
// the observable end state of a concurrent execution must be the end state of some sequential
// order of the same operations (operations are meant to be atomic).

import (
	"fmt"
	"sort"
	"strings"

	"github.com/tokenized/spynode/pkg/vrt"
)

// concLenient: a replayed schedule may not fit (the code changed since it was recorded).
var concLenient bool

type alwaysPreempt struct{}

func (alwaysPreempt) Preempt(*vrt.Thread, *vrt.Op) bool          { return true }
func (alwaysPreempt) ChooseSelect(*vrt.Thread, string, int) int { return 0 }

// concPoint is one decision of an execution.
type concPoint struct {
	enabled      int  // number of enabled threads (canonical order: running thread first, then ids)
	runningFirst bool // the thread that ran last is still enabled (choosing another one pre-empts it)
	site         string
}

type concExec struct {
	choices  []int
	points   []concPoint
	schedule []string // "<thread>@<site>" per step, for replays
	deadlock bool
	panics   []string
}

// concRun performs one execution: spawn() starts the threads (vrt.Go) on a fresh scheduler; the
// choice prefix is replayed and choice 0 taken afterwards.
func concRun(spawn func(), prefix []int) *concExec {
	s := vrt.NewSched()
	s.Policy = alwaysPreempt{}
	vrt.Install(s)
	defer vrt.Install(nil)
	spawn()
	x := &concExec{}
	var last *vrt.Thread
	for step := 0; ; step++ {
		en := s.Enabled()
		if len(en) == 0 {
			if len(s.Live()) > 0 {
				x.deadlock = true
				s.KillAll(false)
			}
			break
		}
		// canonical order
		sort.SliceStable(en, func(i, j int) bool {
			if (en[i] == last) != (en[j] == last) {
				return en[i] == last
			}
			return en[i].ID < en[j].ID
		})
		c := 0
		if step < len(prefix) {
			c = prefix[step]
			if c >= len(en) && concLenient {
				c = 0 // replaying a recorded schedule against different code: fall back to the default choice
			}
			if c >= len(en) {
				panic(fmt.Sprintf("conc: replay divergence at step %d: choice %d of %d", step, c, len(en)))
			}
		}
		t := en[c]
		site := ""
		if t.Pending != nil {
			site = t.Pending.Kind + "@" + t.Pending.Site
		}
		x.points = append(x.points, concPoint{enabled: len(en), runningFirst: len(en) > 0 && en[0] == last, site: site})
		x.choices = append(x.choices, c)
		x.schedule = append(x.schedule, t.Label+" "+site)
		s.Resume(t)
		last = t
		if step > 100000 {
			panic("conc: execution does not terminate")
		}
	}
	for _, t := range s.Panics() {
		x.panics = append(x.panics, fmt.Sprintf("%s: %v", t.Label, t.PanicVal))
	}
	return x
}

type concStats struct {
	Executions int
	Points     int
	MaxPoints  int
	Outcomes   map[string]int
	Capped     bool
}

// concExplore enumerates every interleaving with at most bound pre-emptions (bound < 0: all).
// each is called for every complete execution (after the threads have finished).
func concExplore(spawn func(), bound, maxExec int, each func(x *concExec)) concStats {
	st := concStats{Outcomes: map[string]int{}}
	var rec func(prefix []int)
	rec = func(prefix []int) {
		if maxExec > 0 && st.Executions >= maxExec {
			st.Capped = true
			return
		}
		x := concRun(spawn, prefix)
		st.Executions++
		st.Points += len(x.points)
		if len(x.points) > st.MaxPoints {
			st.MaxPoints = len(x.points)
		}
		each(x)
		// pre-emptions used before point i
		cost := 0
		for i := 0; i < len(x.points); i++ {
			p := x.points[i]
			if i >= len(prefix) {
				for alt := 1; alt < p.enabled; alt++ {
					c := cost
					if p.runningFirst {
						c++
					}
					if bound >= 0 && c > bound {
						continue
					}
					rec(append(append([]int{}, x.choices[:i]...), alt))
				}
			}
			if p.runningFirst && x.choices[i] != 0 {
				cost++
			}
		}
	}
	rec(nil)
	return st
}

// merges returns every order-preserving merge of the programs (as lists of "thread:index").
func merges(progs [][]string) [][]string {
	var out [][]string
	idx := make([]int, len(progs))
	var cur []string
	var rec func()
	rec = func() {
		done := true
		for t := range progs {
			if idx[t] < len(progs[t]) {
				done = false
				cur = append(cur, progs[t][idx[t]])
				idx[t]++
				rec()
				idx[t]--
				cur = cur[:len(cur)-1]
			}
		}
		if done {
			out = append(out, append([]string(nil), cur...))
		}
	}
	rec()
	return out
}

func joinProgs(progs [][]string) string {
	var parts []string
	for _, p := range progs {
		parts = append(parts, strings.Join(p, ","))
	}
	return strings.Join(parts, " || ")
}
