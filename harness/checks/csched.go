//go:build verif

package checks

import (
	"encoding/json"
	"fmt"
	"time"

	"github.com/tokenized/spynode/internal/verif/core"
	"github.com/tokenized/spynode/pkg/client"
)

// Schedule exploration for the remote client: baseline history + one deviation at every
// scheduling point + every alternative of multi-ready selects.

type cPlanTask struct {
	Params cParams        `json:"params"`
	Hist   []string       `json:"hist"`
	Steps  []planStep     `json:"steps"`
	SelAlt map[string]int `json:"sel_alt"`
}

type cPlanResult struct {
	Total      int64            `json:"total"`
	SelSeen    []int            `json:"sel_seen"`
	Applied    int              `json:"applied"`
	Violations []core.Violation `json:"violations"`
	Outcome    string           `json:"outcome"`
}

func cSchedExec(t cPlanTask) cPlanResult {
	w := NewCWorld(t.Params.Cfg)
	w.noteBase = 1
	if t.Params.Cfg.FirstReady > 0 {
		w.noteBase = t.Params.Cfg.FirstReady
	}
	w.plan = &schedPlan{Steps: t.Steps, SelAlt: map[int]int{}}
	for k, v := range t.SelAlt {
		var i int
		fmt.Sscan(k, &i)
		w.plan.SelAlt[i] = v
	}
	w.S.Policy = w.plan
	w.replay = t.Params.Replay
	w.preload(t.Params.Preload)
	w.Start()
	w.Tick(10 * time.Millisecond)
	for _, ev := range t.Hist {
		if w.livelock || len(w.S.Panics()) > 0 {
			break
		}
		w.applyEvent(ev, t.Params)
	}
	w.PanicViolations(t.Params.Prop)
	if len(w.viol) == 0 {
		w.cFinal(t.Params)
	}
	var res cPlanResult
	res.Total, res.SelSeen, res.Applied = w.plan.Total, w.plan.SelSeen, len(w.plan.applied)
	for i := range w.viol {
		w.viol[i].Witness = map[string]interface{}{"plan": t}
		if w.viol[i].Property == t.Params.Prop || w.viol[i].Clause == "panic" || w.viol[i].Clause == "livelock" {
			w.viol[i].Property = t.Params.Prop
			res.Violations = append(res.Violations, w.viol[i])
		}
	}
	done := 0
	for _, c := range w.calls {
		if c.Done && c.Err == nil {
			done++
		}
	}
	res.Outcome = fmt.Sprintf("ok-calls=%d delivered=%d", done, len(w.H[0].events))
	w.Close()
	return res
}

func init() {
	core.RegisterOp("csched", func(arg json.RawMessage) (interface{}, error) {
		var t cPlanTask
		if err := json.Unmarshal(arg, &t); err != nil {
			return nil, err
		}
		return cSchedExec(t), nil
	})
}

// cSchedExplore: for each baseline, one deviation of each kind at every point; then, for every
// execution, every alternative at every multi-ready select.
func cSchedExplore(rep *core.Report, pool *core.Pool, baselines []cPlanTask, kinds []planStep) {
	var first []interface{}
	for _, b := range baselines {
		first = append(first, b)
	}
	totals := make([]int64, len(baselines))
	selSeen := make([][]int, len(baselines))
	pool.Map("csched", first, func(i int, r core.TaskResult) {
		if r.Died != "" || r.Err != "" {
			rep.HarnessError("client baseline %d: %s%s", i, r.Died, r.Err)
			return
		}
		var res cPlanResult
		json.Unmarshal(r.Res, &res)
		totals[i], selSeen[i] = res.Total, res.SelSeen
		for _, v := range res.Violations {
			rep.AddViolation(v)
		}
	})
	var tasks []cPlanTask
	for bi, b := range baselines {
		// alternatives of multi-ready selects in the undisturbed baseline
		for k, n := range selSeen[bi] {
			for alt := 1; alt < n; alt++ {
				t := b
				t.SelAlt = map[string]int{fmt.Sprint(k): alt}
				tasks = append(tasks, t)
			}
		}
		for i := int64(1); i <= totals[bi]; i++ {
			for _, k := range kinds {
				t := b
				st := k
				st.At = i
				t.Steps = []planStep{st}
				tasks = append(tasks, t)
			}
		}
	}
	execs := 0
	var second []cPlanTask
	run := func(ts []cPlanTask, collectSel bool) {
		args := make([]interface{}, len(ts))
		for i := range ts {
			args[i] = ts[i]
		}
		pool.Map("csched", args, func(i int, r core.TaskResult) {
			if r.Died != "" || r.Err != "" {
				rep.AddViolation(core.Violation{Property: rep.Property, Clause: "execution-terminates", Class: "client execution did not finish", Detail: r.Died + r.Err, Witness: map[string]interface{}{"plan": ts[i]}})
				return
			}
			var res cPlanResult
			json.Unmarshal(r.Res, &res)
			if len(ts[i].Steps) > 0 && res.Applied < len(ts[i].Steps) {
				return
			}
			execs++
			rep.Outcome("sched " + res.Outcome)
			for _, v := range res.Violations {
				rep.AddViolation(v)
			}
			if execs%301 == 1 {
				rep.AddSample(map[string]interface{}{"baseline": ts[i].Hist, "deviation": ts[i].Steps, "select_alternatives": ts[i].SelAlt, "outcome": res.Outcome})
			}
			if collectSel {
				for k, n := range res.SelSeen {
					for alt := 1; alt < n; alt++ {
						t := ts[i]
						t.SelAlt = map[string]int{fmt.Sprint(k): alt}
						second = append(second, t)
					}
				}
			}
		})
	}
	run(tasks, true)
	run(second, false)
	if s, ok := rep.Coverage["states"].(int); ok {
		rep.Coverage["states"] = s + execs
	}
	if s, ok := rep.Coverage["transitions"].(int); ok {
		rep.Coverage["transitions"] = s + execs
	}
	rep.Coverage["sched_executions"] = execs
	rep.Coverage["sched_points_per_baseline"] = totals
	rep.Coverage["deviation_bound_completed"] = 1
}

var cSchedKinds = []planStep{{Kind: "stall", Alt: 50}, {Kind: "stall", Alt: 900}, {Kind: "switch", Alt: 0}, {Kind: "switch", Alt: 1}}

func c16Sched(rep *core.Report, pool *core.Pool) {
	c16Outputs(rep, pool)
	cfg := cBase(client.ConnectionTypeFull)
	cfg.AutoAnswer = true
	p := cParams{Prop: "C16", Cfg: cfg}
	cSchedExplore(rep, pool, []cPlanTask{
		{Params: p, Hist: []string{"call:gettx:01", "call:gettx:02", "tick:100"}},
		{Params: p, Hist: []string{"call:sendtx:01", "call:getheaders:5", "call:reprocess:04", "tick:100"}},
	}, cSchedKinds)
}

func c17Sched(rep *core.Report, pool *core.Pool) {
	resume := cBase(client.ConnectionTypeFull)
	resume.FirstReady = 57
	// an application that needs 1.5 s per notification and resumes from its own last handled id: the
	// connection drops while notifications are still queued for the handlers
	slow := cBase(client.ConnectionTypeFull)
	slow.HandlerDelay, slow.OwnID = 1500*time.Millisecond, true
	cSchedExplore(rep, pool, []cPlanTask{
		{Params: cParams{Prop: "C17", Cfg: slow, Replay: true}, Hist: []string{"note:tx", "note:upd", "note:tx", "drop", "tick:2100", "tick:1000", "tick:1000", "tick:1000", "tick:1000"}},
		{Params: cParams{Prop: "C17", Cfg: resume, Replay: true, Preload: 2}, Hist: []string{"tick:100", "note:tx", "note:upd", "tick:100"}},
		{Params: cParams{Prop: "C17", Cfg: cBase(client.ConnectionTypeFull), Replay: true}, Hist: []string{"note:tx", "note:hdrs", "note:upd", "drop", "tick:2100", "note:tx", "tick:100"}},
	}, []planStep{{Kind: "stall", Alt: 50}, {Kind: "switch", Alt: 0}, {Kind: "switch", Alt: 1}, {Kind: "switch", Alt: 2}, {Kind: "switch", Alt: 3}, {Kind: "switch", Alt: 4}, {Kind: "switch", Alt: 5}, {Kind: "drop"}})
}

// c18Sched: the handshake gate under schedule deviations. Baselines queue a request before the
// handshake completes; at every scheduling point one stall / pre-emption (any of the first six
// other runnable threads). Oracles of C18: nothing but handshake messages reaches a connection
// before its handshake is complete, nothing at all after a forged accept.
func c18Sched(rep *core.Report, pool *core.Pool) {
	manual := func(ct client.ConnectionType) CWorldCfg {
		return CWorldCfg{ConnType: ct, AutoAccept: false, AutoReady: false, RequestTimeout: 10 * time.Second}
	}
	var tasks []cPlanTask
	for _, ct := range []client.ConnectionType{client.ConnectionTypeFull, client.ConnectionTypeControl} {
		p := cParams{Prop: "C18", Cfg: manual(ct)}
		tasks = append(tasks,
			cPlanTask{Params: p, Hist: []string{"call:gettx:01", "accept:valid", "ready:1", "tick:100", "ans:0:proper", "tick:100"}},
			cPlanTask{Params: p, Hist: []string{"call:gettx:01", "accept:wrongkey", "tick:100", "tick:2100"}},
			cPlanTask{Params: p, Hist: []string{"call:gettx:01", "accept:othersigner", "tick:100"}},
		)
	}
	cSchedExplore(rep, pool, tasks, []planStep{{Kind: "stall", Alt: 50}, {Kind: "stall", Alt: 400}, {Kind: "switch", Alt: 0}, {Kind: "switch", Alt: 1}, {Kind: "switch", Alt: 2}, {Kind: "switch", Alt: 3}, {Kind: "switch", Alt: 4}, {Kind: "switch", Alt: 5}})
}
