//go:build verif

package checks

import (
	"bytes"
	"context"
	"fmt"
	"io"
	"sort"
	"strconv"
	"strings"
	"time"

	"github.com/tokenized/config"
	"github.com/tokenized/pkg/bitcoin"
	"github.com/tokenized/pkg/wire"
	"github.com/tokenized/spynode/internal/verif/core"
	"github.com/tokenized/spynode/pkg/client"
	"github.com/tokenized/spynode/pkg/vrt"
	"github.com/tokenized/spynode/pkg/vrt/vnet"
	"github.com/tokenized/spynode/pkg/vrt/vtime"
)

// The closed system for the remote-client checks C16-C18: the real RemoteClient.Run (rewritten:
// channels, selects, threads package, timers, net) under the controlled scheduler, against a
// scripted spynode server S over the virtual network.

const serverAddr = "10.9.9.9:8080"

type cCall struct {
	Kind   string // gettx | getheaders | getheader | sendtx | reprocess | markinvalid | marknotinvalid | feequotes | getoutputs | subscribe
	Key    string
	Start  int64
	End    int64
	Done   bool
	Err    error
	Result string // key tag of the returned payload
	Thread *vrt.Thread
}

type sReq struct {
	Kind     string
	Key      string
	Conn     int
	At       int64
	Type     uint64
	Answered string // "" | proper | reject
	AnsAt    int64
	hash     bitcoin.Hash32
	height   int
}

type sConn struct {
	conn       *vnet.VConn
	idx        int
	register   *client.Register
	regValid   bool
	recv       []client.MessagePayload
	recvAt     []int64
	acceptSent string
	readyAt    int64 // time a Ready message was received (0 = none)
	readyNext  uint64
	acceptAt   int64
	preHandshake []uint64 // message types received before the handshake completed on this connection
	replayed bool
	readyGot bool
}

type cRec struct {
	w      *CWorld
	id     int
	events []cEvent
}

type cEvent struct {
	Kind string // tx | update | headers | insync | message:<type>
	ID   uint64
	At   int64
	Conn int
}

func (r *cRec) add(kind string, id uint64) {
	r.events = append(r.events, cEvent{Kind: kind, ID: id, At: vrt.NowNS(), Conn: len(r.w.conns) - 1})
}
func (r *cRec) HandleTx(ctx context.Context, tx *client.Tx)            { r.work(); r.add("tx", tx.ID) }
func (r *cRec) HandleTxUpdate(ctx context.Context, u *client.TxUpdate) { r.work(); r.add("update", u.ID) }

// work: the application takes a while (virtual time) to process a notification.
func (r *cRec) work() {
	if r.id == 0 && r.w.cfg.HandlerDelay > 0 {
		vtime.Sleep(vtime.Duration(r.w.cfg.HandlerDelay))
	}
}
func (r *cRec) HandleHeaders(ctx context.Context, h *client.Headers)    { r.add("headers", uint64(h.StartHeight)) }
func (r *cRec) HandleInSync(ctx context.Context)                        { r.add("insync", 0) }
func (r *cRec) HandleMessage(ctx context.Context, p client.MessagePayload) {
	r.add(fmt.Sprintf("message:%d", p.Type()), 0)
	if _, ok := p.(*client.AcceptRegister); ok && r.id == 0 && r.w.autoReady {
		// the application declares ready with the resume point the client reports
		next := r.w.C.NextMessageID()
		if r.w.cfg.OwnID {
			// like cmd/client: the application keeps the id of the last notification it handled
			next = r.w.noteBase
			for _, e := range r.events {
				if e.Kind == "tx" || e.Kind == "update" {
					next = e.ID + 1
				}
			}
		}
		if r.w.readyOverride > 0 {
			next = r.w.readyOverride
			r.w.readyOverride = 0
		}
		if err := r.w.C.Ready(ctx, next); err != nil {
			r.w.readyErrs++
		} else {
			r.w.readyCalls = append(r.w.readyCalls, next)
		}
	}
}
func (r *cRec) DumpKey() string { return fmt.Sprintf("crec%d", r.id) }

type CWorldCfg struct {
	ConnType       client.ConnectionType
	AutoAccept     bool   // server answers Register with a valid AcceptRegister at once
	AutoReady      bool   // handler calls Ready(NextMessageID()) on AcceptRegister
	AutoAnswer     bool   // server answers every request properly as soon as it sees it
	FirstReady     uint64 // first Ready uses this id instead of NextMessageID()
	RequestTimeout time.Duration
	MessageTimeout time.Duration `json:",omitempty"` // message channel time-out (default 30 s)
	HandlerDelay   time.Duration `json:",omitempty"` // virtual time handler 0 spends on every tx / update notification
	OwnID          bool          `json:",omitempty"` // handler declares ready with its own last handled id + 1 instead of NextMessageID()
	MaxPoints      int64
}

type CWorld struct {
	wfails int
	garbled int // connections the scripted server dropped because the byte stream did not parse (sched mode)
	cfg   CWorldCfg
	S     *vrt.Sched
	C     *client.RemoteClient
	ccfg  client.Config
	H     [2]*cRec
	Late  *cRec // a handler the application registers while Run is already going
	lateFrom int // number of notifications handler 0 had received when the late handler was registered
	serverKey bitcoin.Key
	clientKey bitcoin.Key
	otherKey  bitcoin.Key
	conns []*sConn
	reqs  []*sReq
	calls []*cCall
	runDone bool
	runErr  error
	interrupt *vrt.Chan[interface{}]
	autoReady bool
	readyOverride uint64
	readyCalls []uint64
	readyErrs  int
	viol  []core.Violation
	hist  []string
	steps int64
	livelock bool
	plan  *schedPlan
	preferred *vrt.Thread
	sent  []sentNote // notifications the server sent
	prevAccept []byte
	noteLog  []noteRec
	noteBase uint64
	replay   bool
	trace []string
}

type sentNote struct {
	Kind string
	ID   uint64
	At   int64
	Conn int
}

func mustKey(b byte) bitcoin.Key {
	k, err := bitcoin.KeyFromNumber(bytes.Repeat([]byte{b}, 32), bitcoin.MainNet)
	if err != nil {
		panic(err)
	}
	return k
}

func NewCWorld(cfg CWorldCfg) *CWorld {
	if cfg.MaxPoints == 0 {
		cfg.MaxPoints = 2000000
	}
	if cfg.RequestTimeout == 0 {
		cfg.RequestTimeout = 10 * time.Second
	}
	w := &CWorld{cfg: cfg, serverKey: mustKey(0x21), clientKey: mustKey(0x22), otherKey: mustKey(0x23), autoReady: cfg.AutoReady, readyOverride: cfg.FirstReady}
	w.S = vrt.NewSched()
	vrt.Install(w.S)
	vnet.Reset()
	vnet.Net.Accept = func(addr string, server *vnet.VConn) bool {
		if addr != serverAddr {
			return false
		}
		w.conns = append(w.conns, &sConn{conn: server, idx: len(w.conns)})
		return true
	}
	cc := client.NewConfig(serverAddr, w.serverKey.PublicKey(), w.clientKey, 100, cfg.ConnType)
	cc.RequestTimeout = config.NewDuration(cfg.RequestTimeout)
	if cfg.MessageTimeout > 0 {
		cc.MessageChannelTimeout = config.NewDuration(cfg.MessageTimeout)
	}
	cc.RetryDelay = config.NewDuration(2 * time.Second)
	cc.RetryError = config.NewDuration(10 * time.Minute)
	w.ccfg = *cc
	c, err := client.NewRemoteClient(cc)
	if err != nil {
		panic(err)
	}
	w.C = c
	for i := range w.H {
		w.H[i] = &cRec{w: w, id: i}
		c.RegisterHandler(w.H[i])
	}
	w.interrupt = vrt.MakeChan[interface{}](1)
	return w
}

func (w *CWorld) fail(prop, clause, class, detail string) {
	w.viol = append(w.viol, core.Violation{Property: prop, Clause: clause, Class: class, Detail: detail,
		Witness: map[string]interface{}{"hist": append([]string(nil), w.hist...), "cfg": w.cfg}})
}

func (w *CWorld) Start() {
	ctx := core.Ctx()
	t := vrt.GoEnv("Client.Run", func() {
		err := w.C.Run(ctx, w.interrupt)
		w.runErr, w.runDone = err, true
	})
	t.Env = false
	w.settle()
}

func (w *CWorld) settle() {
	for {
		for {
			en := w.S.Enabled()
			if len(en) == 0 {
				break
			}
			pick := en[0]
			if w.preferred != nil {
				for _, t := range en {
					if t == w.preferred {
						pick = t
					}
				}
				w.preferred = nil
			}
			w.S.Resume(pick)
			w.steps++
			if w.plan != nil && w.plan.hit != nil {
				w.execPlanStep(pick)
			}
			if w.steps > w.cfg.MaxPoints {
				if !w.livelock {
					w.livelock = true
					w.fail("C16", "livelock", "client threads keep running without blocking", "no quiescence")
				}
				return
			}
			if len(w.S.Panics()) > 0 {
				return
			}
		}
		if !w.pump() {
			return
		}
	}
}

func (w *CWorld) execPlanStep(parked *vrt.Thread) {
	st := w.plan.hit
	w.plan.hit = nil
	w.preferred = parked
	switch st.Kind {
	case "stall":
		parked.StallUntil = w.S.Now + int64(st.Alt)*1e6
		w.preferred = nil
		w.plan.applied = append(w.plan.applied, "stall")
	case "switch":
		var others []*vrt.Thread
		for _, t := range w.S.Enabled() {
			if t != parked && !t.Env {
				others = append(others, t)
			}
		}
		if st.Alt < len(others) {
			w.preferred = nil
			w.S.Resume(others[st.Alt])
			if w.plan.hit != nil {
				w.execPlanStep(others[st.Alt])
			}
			w.preferred = parked
			w.plan.applied = append(w.plan.applied, "switch")
		} else {
			w.plan.skipped++
		}
	case "drop":
		if c := w.cur(); c != nil && !c.conn.IsClosed() {
			c.conn.Close()
			w.plan.applied = append(w.plan.applied, "drop")
		}
	}
}

func (w *CWorld) Tick(d time.Duration) {
	target := w.S.Now + int64(d)
	w.settle()
	for !w.livelock && len(w.S.Panics()) == 0 {
		nw, ok := w.S.NextWake()
		if !ok || nw > target {
			break
		}
		w.S.AdvanceTo(nw)
		w.settle()
	}
	w.S.AdvanceTo(target)
	w.settle()
}

func (w *CWorld) cur() *sConn {
	if len(w.conns) == 0 {
		return nil
	}
	return w.conns[len(w.conns)-1]
}

// pump parses what the client wrote on every connection.
func (w *CWorld) pump() bool {
	wrote := false
	for _, sc := range w.conns {
		for {
			buf := sc.conn.Unread()
			if len(buf) == 0 {
				break
			}
			rd := bytes.NewReader(buf)
			var m client.Message
			err := m.Deserialize(rd)
			if err != nil {
				if errorsIsShort(err) {
					break // partial message
				}
				if w.plan != nil && len(w.plan.Steps) > 0 {
					// Under a scheduling deviation two client goroutines (the send loop and a direct handshake
					// write) can interleave their field-by-field writes on one connection. No listed property
					// speaks about that; a server that cannot parse the stream drops the connection.
					w.garbled++
					sc.conn.Consume(len(buf))
					sc.conn.Close()
					break
				}
				w.fail("C18", "client-writes-valid-messages", "server cannot parse what the client wrote", err.Error())
				sc.conn.Consume(len(buf))
				break
			}
			sc.conn.Consume(len(buf) - rd.Len())
			if w.onClientMsg(sc, m.Payload) {
				wrote = true
			}
		}
	}
	return wrote
}

func errorsIsShort(err error) bool {
	s := err.Error()
	return strings.Contains(s, io.EOF.Error()) || strings.Contains(s, "unexpected EOF")
}

func (w *CWorld) sendTo(sc *sConn, p client.MessagePayload) {
	if sc == nil || sc.conn.IsClosed() || sc.conn.Peer.IsClosed() {
		return
	}
	var b bytes.Buffer
	if err := (client.Message{Payload: p}).Serialize(&b); err != nil {
		panic("harness: cannot encode: " + err.Error())
	}
	sc.conn.Write(b.Bytes())
	if traceOn {
		w.trace = append(w.trace, fmt.Sprintf("[%8.3f] S->C conn%d %T", float64(w.S.Now)/1e9, sc.idx, p))
	}
}

// onClientMsg: the scripted server's bookkeeping (and automatic reactions when configured).
func (w *CWorld) onClientMsg(sc *sConn, p client.MessagePayload) bool {
	sc.recv = append(sc.recv, p)
	sc.recvAt = append(sc.recvAt, w.S.Now)
	if traceOn {
		w.trace = append(w.trace, fmt.Sprintf("[%8.3f] C->S conn%d %T", float64(w.S.Now)/1e9, sc.idx, p))
	}
	handshakeDone := sc.acceptSent == "valid" && (w.cfg.ConnType != client.ConnectionTypeFull || sc.readyGot)
	if !handshakeDone {
		sc.preHandshake = append(sc.preHandshake, p.Type())
	}
	switch m := p.(type) {
	case *client.Register:
		sc.register = m
		sh, err := m.SigHash()
		sc.regValid = err == nil && m.Signature.Verify(*sh, w.clientKey.PublicKey()) && m.Key.Equal(w.clientKey.PublicKey())
		if !sc.regValid {
			w.fail("C18", "register-signed-by-client-key", "register message does not verify under the configured client key", fmt.Sprintf("connection %d", sc.idx))
		}
		if w.cfg.AutoAccept {
			w.Accept(sc, "valid")
			return true
		}
	case *client.Ready:
		sc.readyAt = w.S.Now
		sc.readyGot = true
		sc.readyNext = m.NextMessageID
		if w.replay {
			// a replaying server streams from the declared id as soon as it sees Ready
			before := len(w.sent)
			w.replayIfReady()
			return len(w.sent) > before
		}
	case *client.GetTx:
		w.newReq(sc, "gettx", hashKey(m.TxID), p.Type(), m.TxID, 0)
	case *client.GetHeaders:
		w.newReq(sc, "getheaders", strconv.Itoa(int(m.RequestHeight)), p.Type(), bitcoin.Hash32{}, int(m.RequestHeight))
	case *client.GetHeader:
		w.newReq(sc, "getheader", hashKey(m.BlockHash), p.Type(), m.BlockHash, 0)
	case *client.SendTx:
		w.newReq(sc, "sendtx", hashKey(*m.Tx.TxHash()), p.Type(), *m.Tx.TxHash(), 0)
	case *client.ReprocessTx:
		w.newReq(sc, "reprocess", hashKey(m.TxID), p.Type(), m.TxID, 0)
	case *client.MarkHeaderInvalid:
		w.newReq(sc, "markinvalid", hashKey(m.BlockHash), p.Type(), m.BlockHash, 0)
	case *client.MarkHeaderNotInvalid:
		w.newReq(sc, "marknotinvalid", hashKey(m.BlockHash), p.Type(), m.BlockHash, 0)
	case *client.GetFeeQuotes:
		w.newReq(sc, "feequotes", "-", p.Type(), bitcoin.Hash32{}, 0)
	}
	if w.cfg.AutoAnswer {
		answered := false
		for i, r := range w.reqs {
			if r.Answered == "" && r.Conn == sc.idx {
				w.Answer(i, "proper")
				answered = true
			}
		}
		return answered
	}
	return false
}

func hashKey(h bitcoin.Hash32) string { return fmt.Sprintf("%02x", h[0]) }

func keyHash(k string) bitcoin.Hash32 {
	var h bitcoin.Hash32
	fmt.Sscanf(k, "%02x", &h[0])
	h[1] = 0xc6
	return h
}

func (w *CWorld) newReq(sc *sConn, kind, key string, typ uint64, h bitcoin.Hash32, height int) {
	w.reqs = append(w.reqs, &sReq{Kind: kind, Key: key, Conn: sc.idx, At: w.S.Now, Type: typ, hash: h, height: height})
}

// keyTx builds the tx the server returns for a key (the tx's hash is what GetTx correlates on, so
// txs are pre-generated per key and the call asks for their hash).
var cTxByKey = map[string]*wire.MsgTx{}

func cTxFor(key string) *wire.MsgTx {
	if t, ok := cTxByKey[key]; ok {
		return t
	}
	n, _ := strconv.ParseUint(key, 16, 32)
	tx := c15Tx(1, 2, 3)
	tx.LockTime = uint32(7000 + n)
	cTxByKey[key] = tx
	return tx
}

func cHeaderFor(key string) wire.BlockHeader {
	n, _ := strconv.ParseUint(key, 16, 32)
	return c15Header(int(n) % 200)
}

// Answer makes the server respond to request i. mode: proper | reject.
func (w *CWorld) Answer(i int, mode string) bool {
	if i >= len(w.reqs) || w.reqs[i].Answered != "" {
		return false
	}
	r := w.reqs[i]
	sc := w.conns[r.Conn]
	if sc.conn.IsClosed() || sc.conn.Peer.IsClosed() {
		sc = w.cur() // answer on the current connection (the client resends after reconnect)
	}
	r.Answered, r.AnsAt = mode, w.S.Now
	if mode == "reject" {
		h := r.hash
		hp := &h
		if r.Kind == "getheaders" || r.Kind == "feequotes" {
			hp = nil
		}
		w.sendTo(sc, &client.Reject{MessageType: r.Type, Hash: hp, Code: client.RejectCodeNotFound, Message: "no:" + r.Kind + ":" + r.Key})
		return true
	}
	switch r.Kind {
	case "gettx":
		w.sendTo(sc, &client.BaseTx{Tx: w.txWithHash(r.hash)})
	case "getheaders":
		h := c15Header(r.height % 200)
		w.sendTo(sc, &client.Headers{RequestHeight: int32(r.height), StartHeight: uint32(r.height), Headers: []*wire.BlockHeader{&h}})
	case "getheader":
		w.sendTo(sc, &client.Header{Header: w.headerWithHash(r.hash), BlockHeight: 77})
	case "feequotes":
		w.sendTo(sc, &client.FeeQuotes{})
	default: // sendtx, reprocess, markinvalid, marknotinvalid
		h := r.hash
		w.sendTo(sc, &client.Accept{MessageType: r.Type, Hash: &h})
	}
	return true
}

func (w *CWorld) txWithHash(h bitcoin.Hash32) *wire.MsgTx {
	for _, t := range cTxByKey {
		if *t.TxHash() == h {
			return t
		}
	}
	return c15Tx(1, 1, 0)
}

func (w *CWorld) headerWithHash(h bitcoin.Hash32) wire.BlockHeader {
	for i := 0; i < 200; i++ {
		hd := c15Header(i)
		if *hd.BlockHash() == h {
			return hd
		}
	}
	return c15Header(0)
}

// Accept sends an AcceptRegister of the given variant on the connection.
func (w *CWorld) Accept(sc *sConn, variant string) {
	if sc == nil || sc.register == nil {
		return
	}
	hash := sc.register.Hash
	signKey, _ := bitcoin.NextKey(w.serverKey, hash)
	msg := &client.AcceptRegister{Key: signKey.PublicKey(), PushDataCount: 1, UTXOCount: 2, MessageCount: 3}
	sign := func(k bitcoin.Key, m *client.AcceptRegister, h bitcoin.Hash32) {
		sh, _ := m.SigHash(h)
		m.Signature, _ = k.Sign(*sh)
	}
	switch variant {
	case "valid":
		sign(signKey, msg, hash)
	case "wrongkey": // a key unrelated to the configured server key, correctly self-signed
		k, _ := bitcoin.NextKey(w.otherKey, hash)
		msg.Key = k.PublicKey()
		sign(k, msg, hash)
	case "otherhash": // session key derived from another hash
		var h2 bitcoin.Hash32
		h2[0] = 0x99
		k, _ := bitcoin.NextKey(w.serverKey, h2)
		msg.Key = k.PublicKey()
		sign(k, msg, hash)
	case "othersigner": // right key, signature made by another key
		k, _ := bitcoin.NextKey(w.otherKey, hash)
		sign(k, msg, hash)
	case "rootsigner": // right key, signed by the un-derived server root key
		sign(w.serverKey, msg, hash)
	case "alteredcounts": // signature over different counts
		sign(signKey, msg, hash)
		msg.MessageCount = 4
	case "alteredutxo":
		sign(signKey, msg, hash)
		msg.UTXOCount = 9
	case "alteredpush":
		sign(signKey, msg, hash)
		msg.PushDataCount = 9
	case "otherhashsig": // signature over another session hash
		var h2 bitcoin.Hash32
		h2[0] = 0x98
		sign(signKey, msg, h2)
	case "replay": // the accept of the previous connection's session
		if len(w.conns) < 2 || w.conns[len(w.conns)-2].register == nil {
			return
		}
		ph := w.conns[len(w.conns)-2].register.Hash
		pk, _ := bitcoin.NextKey(w.serverKey, ph)
		msg.Key = pk.PublicKey()
		sign(pk, msg, ph)
	}
	sc.acceptSent = variant
	sc.acceptAt = w.S.Now
	w.sendTo(sc, msg)
}

// Call starts an application call in its own (managed) thread.
func (w *CWorld) Call(kind, key string) *cCall {
	call := &cCall{Kind: kind, Key: key, Start: w.S.Now}
	w.calls = append(w.calls, call)
	ctx := core.Ctx()
	c := w.C
	h := keyHash(key)
	call.Thread = vrt.GoEnv("App."+kind+":"+key, func() {
		switch kind {
		case "gettx":
			tx := cTxFor(key)
			got, err := c.GetTx(ctx, *tx.TxHash())
			call.Err = err
			if got != nil {
				call.Result = "tx:" + fmt.Sprint(got.LockTime-7000)
			}
		case "getheaders":
			n, _ := strconv.Atoi(key)
			got, err := c.GetHeaders(ctx, n, 1)
			call.Err = err
			if got != nil {
				call.Result = fmt.Sprintf("headers:%d", got.RequestHeight)
			}
		case "getheader":
			hd := cHeaderFor(key)
			got, err := c.GetHeader(ctx, *hd.BlockHash())
			call.Err = err
			if got != nil {
				call.Result = "header:" + hashKey(*got.Header.BlockHash())
			}
		case "sendtx":
			call.Err = c.SendTx(ctx, cTxFor(key))
			call.Result = "accept"
		case "reprocess":
			call.Err = c.ReprocessTx(ctx, h, nil)
			call.Result = "accept"
		case "markinvalid":
			call.Err = c.MarkHeaderInvalid(ctx, h)
			call.Result = "accept"
		case "marknotinvalid":
			call.Err = c.MarkHeaderNotInvalid(ctx, h)
			call.Result = "accept"
		case "feequotes":
			_, err := c.GetFeeQuotes(ctx)
			call.Err = err
			call.Result = "feequotes"
		case "subscribe":
			call.Err = c.SubscribePushDatas(ctx, [][]byte{{1, 2, 3}})
			call.Result = "sent"
		}
		call.Done, call.End = true, w.S.Now
	})
	call.Thread.Env = false
	return call
}

// reqKeyOf returns the key under which the server sees a call (gettx/sendtx use the tx hash).
func (c *cCall) serverKey() string {
	switch c.Kind {
	case "gettx", "sendtx":
		return hashKey(*cTxFor(c.Key).TxHash())
	case "getheader":
		hd := cHeaderFor(c.Key)
		return hashKey(*hd.BlockHash())
	case "feequotes":
		return "-"
	case "getheaders":
		return c.Key
	}
	return hashKey(keyHash(c.Key))
}

func (w *CWorld) Close() {
	w.S.KillAll(false)
	vrt.Install(nil)
}

func (w *CWorld) PanicViolations(prop string) {
	for _, t := range w.S.Panics() {
		w.fail(prop, "panic", panicSite(t.PanicStk), fmt.Sprintf("thread %s panicked: %v\n%s", t.Label, t.PanicVal, trimStack(t.PanicStk)))
	}
}

func (w *CWorld) Key() string {
	now := time.Unix(vrt.BaseUnix, 0).Add(time.Duration(w.S.Now))
	d := core.NewDumper(now)
	d.Add("client", w.C)
	var parts []string
	for _, r := range w.reqs {
		parts = append(parts, fmt.Sprintf("%s:%s:%d:%s", r.Kind, r.Key, r.Conn, r.Answered))
	}
	d.AddRaw("reqs", strings.Join(parts, ";"))
	parts = nil
	for _, c := range w.calls {
		parts = append(parts, fmt.Sprintf("%s:%s:%v:%v:%s:%d", c.Kind, c.Key, c.Done, c.Err != nil, c.Result, (w.S.Now-c.Start)/1e8))
	}
	d.AddRaw("calls", strings.Join(parts, ";"))
	parts = nil
	for _, sc := range w.conns {
		parts = append(parts, fmt.Sprintf("%d:%s:%v:%d:%d", sc.idx, sc.acceptSent, sc.conn.IsClosed(), sc.readyNext, len(sc.recv)))
	}
	d.AddRaw("conns", strings.Join(parts, ";"))
	var ts []string
	for _, t := range w.S.Threads {
		if t.Done {
			continue
		}
		op := "?"
		if t.Pending != nil {
			op = t.Pending.Kind + "@" + t.Pending.Site
			if t.Pending.WakeAt > 0 {
				op += fmt.Sprintf("+%d", t.Pending.WakeAt-w.S.Now)
			}
		}
		ts = append(ts, t.Label+":"+op)
	}
	sort.Strings(ts)
	d.AddRaw("threads", strings.Join(ts, ";"))
	d.AddRaw("timers", fmt.Sprint(w.S.PendingTimers()))
	var ev []string
	for _, e := range w.H[0].events {
		ev = append(ev, fmt.Sprintf("%s%d", e.Kind, e.ID))
	}
	d.AddRaw("delivered", strings.Join(ev, ","))
	d.AddRaw("run", fmt.Sprint(w.runDone, w.runErr != nil, w.readyCalls))
	return core.HashStr(d.String())
}
