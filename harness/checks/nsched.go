//go:build verif

package checks

import (
	"encoding/json"
	"fmt"

	"github.com/tokenized/spynode/internal/verif/core"
)

// Schedule exploration for the node-level history scenarios: a baseline history is executed with
// one deviation (stall / pre-emption) at every scheduling point after the common boot, then judged
// by the same oracles as the hist search (drain convergence, chain invariants, tx oracles).

type nschedTask struct {
	P    histParams `json:"p"`
	Hist []string   `json:"hist"`
}

type nschedResult struct {
	Total      int64            `json:"total"`
	Applied    int              `json:"applied"`
	Violations []core.Violation `json:"violations"`
	Outcome    string           `json:"outcome"`
}

func nschedExec(t nschedTask) nschedResult {
	r := runHist(t.P, t.Hist, t.P.Drain)
	var res nschedResult
	if r.w.plan != nil {
		res.Total, res.Applied = r.w.plan.Total, len(r.w.plan.applied)
	}
	for i := range r.w.viol {
		r.w.viol[i].Witness = map[string]interface{}{"hist": t.Hist, "scenario": t.P}
	}
	res.Violations = r.w.viol
	res.Outcome = r.outcome
	r.w.Close()
	return res
}

func init() {
	core.RegisterOp("nsched", func(arg json.RawMessage) (interface{}, error) {
		var t nschedTask
		if err := json.Unmarshal(arg, &t); err != nil {
			return nil, err
		}
		return nschedExec(t), nil
	})
}

var nodeSchedKinds = []planStep{{Kind: "stall", Alt: 250}, {Kind: "switch", Alt: 0}, {Kind: "switch", Alt: 1}}

// nodeSchedExplore adds the sched part of a node-level check to rep.
func nodeSchedExplore(rep *core.Report, pool *core.Pool, prop string, baselines []nschedTask, kinds []planStep, accept func(core.Violation) bool) {
	var first []interface{}
	for _, b := range baselines {
		b.P.CountPoints = true
		first = append(first, b)
	}
	totals := make([]int64, len(baselines))
	pool.Map("nsched", first, func(i int, r core.TaskResult) {
		if r.Died != "" || r.Err != "" {
			rep.HarnessError("sched baseline %d: %s%s", i, r.Died, r.Err)
			return
		}
		var res nschedResult
		json.Unmarshal(r.Res, &res)
		totals[i] = res.Total
		for _, v := range res.Violations {
			if v.Property == prop || v.Clause == "panic" || v.Clause == "livelock" || (accept != nil && accept(v)) {
				v.Property = prop
				rep.AddViolation(v)
			}
		}
	})
	var tasks []nschedTask
	for bi, b := range baselines {
		for i := int64(1); i <= totals[bi]; i++ {
			for _, k := range kinds {
				t := b
				st := k
				st.At = i
				t.P.Plan = []planStep{st}
				tasks = append(tasks, t)
			}
		}
	}
	args := make([]interface{}, len(tasks))
	for i := range tasks {
		args[i] = tasks[i]
	}
	execs := 0
	pool.Map("nsched", args, func(i int, r core.TaskResult) {
		if r.Died != "" || r.Err != "" {
			rep.AddViolation(core.Violation{Property: prop, Clause: "execution-terminates", Class: "execution did not finish under a scheduling deviation", Detail: r.Died + r.Err,
				Witness: map[string]interface{}{"hist": tasks[i].Hist, "scenario": tasks[i].P}})
			return
		}
		var res nschedResult
		json.Unmarshal(r.Res, &res)
		if res.Applied == 0 {
			return
		}
		execs++
		rep.Outcome("sched " + res.Outcome)
		for _, v := range res.Violations {
			if v.Property == prop || v.Clause == "panic" || v.Clause == "livelock" || (accept != nil && accept(v)) {
				v.Property = prop
				rep.AddViolation(v)
			}
		}
		if execs%401 == 1 {
			rep.AddSample(map[string]interface{}{"baseline": tasks[i].Hist, "deviation": tasks[i].P.Plan, "outcome": res.Outcome})
		}
	})
	if s, ok := rep.Coverage["states"].(int); ok {
		rep.Coverage["states"] = s + execs
	}
	if s, ok := rep.Coverage["transitions"].(int); ok {
		rep.Coverage["transitions"] = s + execs
		rep.Coverage["traces_validated_against_impl"] = s + execs
	}
	rep.Coverage["sched_executions"] = execs
	rep.Coverage["sched_points_per_baseline"] = fmt.Sprint(totals)
	rep.Coverage["deviation_bound_completed"] = 1
}
