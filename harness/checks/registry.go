//go:build verif

package checks

import (
	"encoding/json"
	"fmt"
	"os"

	"github.com/tokenized/spynode/internal/verif/core"
)

// All maps a property id to its check entry point (master side); it returns the exit code.
var All = map[string]func() int{}

// Replayers re-run one recorded witness without the explorer and report whether it still fails.
var Replayers = map[string]func(witness json.RawMessage) []core.Violation{}

func Replay(id, path string) int {
	b, err := os.ReadFile(path)
	if err != nil {
		fmt.Fprintln(os.Stderr, err)
		return 2
	}
	var v struct {
		Witness json.RawMessage `json:"witness"`
	}
	if err := json.Unmarshal(b, &v); err != nil {
		fmt.Fprintln(os.Stderr, err)
		return 2
	}
	if vs, handled := concReplay(id, v.Witness); handled {
		if len(vs) == 0 {
			fmt.Println("replay: no violation")
			return 0
		}
		for _, x := range vs {
			fmt.Printf("VIOLATION property=%s replay=%s\n  clause: %s\n  class: %s\n  detail: %s\n", id, path, x.Clause, x.Class, x.Detail)
		}
		return 1
	}
	f, ok := Replayers[id]
	if !ok {
		fmt.Fprintf(os.Stderr, "no replayer for %s\n", id)
		return 2
	}
	vs := f(v.Witness)
	if len(vs) == 0 {
		fmt.Println("replay: no violation")
		return 0
	}
	for _, x := range vs {
		fmt.Printf("VIOLATION property=%s replay=%s\n  clause: %s\n  class: %s\n  detail: %s\n", id, path, x.Clause, x.Class, x.Detail)
	}
	return 1
}
