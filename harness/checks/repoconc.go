//go:build verif

package checks

// Interleaving exploration of the block repository (C02, C09, C10): in the node the headers
// handler (Save when in sync, Revert on a reorg, Add below the start block) and the block
// processor (Add, Save) use one BlockRepository from two goroutines. Here two or three threads run
// short programs of those operations on the real repository over the recording store; every mutex
// operation and every storage read/write/remove is a scheduling point, and every interleaving up to
// the pre-emption bound is executed. Oracle: the end state - what the by-height/by-hash queries
// answer in memory and what a fresh repository loads from the storage left behind - must equal the
// end state of some sequential order of the same operations, the by-height and by-hash answers
// must be inverse, the chain hash-linked, and the reload must succeed.

import (
	"context"
	"encoding/json"
	"fmt"
	"sort"
	"strings"

	"github.com/tokenized/pkg/bitcoin"
	pkgstorage "github.com/tokenized/pkg/storage"
	"github.com/tokenized/pkg/wire"
	"github.com/tokenized/spynode/internal/platform/config"
	"github.com/tokenized/spynode/internal/storage"
	"github.com/tokenized/spynode/internal/verif/core"
	"github.com/tokenized/spynode/pkg/vrt"
)

// pointStore makes every storage operation a scheduling point (a slow back-end can be overtaken).
type pointStore struct {
	*core.RecStore
}

func storePoint(kind, key string) {
	vrt.Point(&vrt.Op{Kind: kind, Site: key, Enabled: func() bool { return true }})
}

func (p pointStore) Read(ctx context.Context, key string) ([]byte, error) {
	storePoint("store-read", key)
	return p.RecStore.Read(ctx, key)
}

func (p pointStore) Write(ctx context.Context, key string, body []byte, o *pkgstorage.Options) error {
	storePoint("store-write", key)
	return p.RecStore.Write(ctx, key, body, o)
}

func (p pointStore) Remove(ctx context.Context, key string) error {
	storePoint("store-remove", key)
	return p.RecStore.Remove(ctx, key)
}

type repoConcScenario struct {
	Name  string     `json:"name"`
	Pre   int        `json:"pre"`   // height of the saved chain the repository starts from
	Progs [][]string `json:"progs"` // per thread: save | add (next header of the fixed chain) | revert:<h>
}

func repoConcScenarios(thorough bool) []repoConcScenario {
	scs := []repoConcScenario{
		{"save || add across the file boundary", 998, [][]string{{"save"}, {"add", "add", "add"}}},
		{"save || add, add, save across the file boundary", 998, [][]string{{"save"}, {"add", "add", "save"}}},
		{"save || revert across the file boundary", 1001, [][]string{{"save"}, {"revert:998"}}},
		{"save || revert within the newest file", 1003, [][]string{{"save"}, {"revert:1001"}}},
		{"save || revert to the boundary", 1001, [][]string{{"save"}, {"revert:999"}}},
		{"save, save || revert, save", 3, [][]string{{"save", "save"}, {"revert:1", "save"}}},
	}
	if thorough {
		scs = append(scs,
			repoConcScenario{"save || save || add across the file boundary", 998, [][]string{{"save"}, {"save"}, {"add", "add", "add"}}},
			repoConcScenario{"save, save || add x4 across the file boundary", 997, [][]string{{"save", "save"}, {"add", "add", "add", "add"}}},
			repoConcScenario{"save || revert, save across two boundaries", 2001, [][]string{{"save"}, {"revert:999", "save"}}},
		)
	}
	return scs
}

var repoConcChain []wire.BlockHeader // fixed linked chain, index = height
var repoConcBase = map[int]*core.RecStore{}

func repoConcHeaders(n int) []wire.BlockHeader {
	if len(repoConcChain) == 0 {
		repoConcChain = []wire.BlockHeader{core.GenesisHeader()}
	}
	for len(repoConcChain) <= n {
		prev := repoConcChain[len(repoConcChain)-1]
		h := len(repoConcChain)
		var m bitcoin.Hash32
		m[0], m[1], m[2] = byte(h), byte(h>>8), 0x5a
		repoConcChain = append(repoConcChain, core.MakeHeader(*prev.BlockHash(), h, 7, m))
	}
	return repoConcChain
}

// repoConcImage: storage holding the fixed chain up to height pre, saved.
func repoConcImage(pre int) *core.RecStore {
	if b, ok := repoConcBase[pre]; ok {
		return b.Clone()
	}
	st := core.NewRecStore(true)
	st.Record = false
	repo := storage.NewBlockRepository(config.Config{Net: bitcoin.MainNet}, st)
	ctx := core.Ctx()
	if err := repo.Load(ctx); err != nil {
		panic(err)
	}
	ch := repoConcHeaders(pre + 8)
	for h := 1; h <= pre; h++ {
		hd := ch[h]
		if err := repo.Add(ctx, &hd); err != nil {
			panic(err)
		}
	}
	if err := repo.Save(ctx); err != nil {
		panic(err)
	}
	repoConcBase[pre] = st
	return st.Clone()
}

type repoConcInst struct {
	sc    repoConcScenario
	store *core.RecStore
	repo  *storage.BlockRepository
	next  int // next height to add
	errs  []string
}

func newRepoConcInst(sc repoConcScenario, points bool) *repoConcInst {
	in := &repoConcInst{sc: sc, store: repoConcImage(sc.Pre), next: sc.Pre + 1}
	var st pkgstorage.Storage = in.store
	if points {
		st = pointStore{in.store}
	}
	in.repo = storage.NewBlockRepository(config.Config{Net: bitcoin.MainNet}, st)
	if err := in.repo.Load(core.Ctx()); err != nil {
		panic(fmt.Sprintf("repoconc: initial load: %v", err))
	}
	return in
}

func (in *repoConcInst) do(op string) {
	ctx := core.Ctx()
	var err error
	switch {
	case op == "save":
		err = in.repo.Save(ctx)
	case op == "add":
		hd := repoConcHeaders(in.next)[in.next]
		in.next++
		err = in.repo.Add(ctx, &hd)
	case strings.HasPrefix(op, "revert:"):
		var h int
		fmt.Sscan(strings.TrimPrefix(op, "revert:"), &h)
		err = in.repo.Revert(ctx, h)
	}
	if err != nil {
		in.errs = append(in.errs, op+": "+errClass(err))
	}
}

func errClass(err error) string {
	s := err.Error()
	if i := strings.Index(s, "("); i > 0 {
		s = s[:i]
	}
	if len(s) > 60 {
		s = s[:60]
	}
	return strings.TrimSpace(s)
}

// view lists what a repository answers: tip, and for a window of heights around the file
// boundaries and the tip the hash by height and the height by hash.
func repoView(repo *storage.BlockRepository, maxH int) (string, []string) {
	ctx := core.Ctx()
	var sb strings.Builder
	var bad []string
	tip := repo.LastHeight()
	fmt.Fprintf(&sb, "tip=%d", tip)
	hs := map[int]bool{}
	for _, c := range []int{0, 1, 998, 999, 1000, 1001, 1999, 2000, 2001, tip - 1, tip, tip + 1} {
		for d := -1; d <= 1; d++ {
			if h := c + d; h >= 0 && h <= maxH {
				hs[h] = true
			}
		}
	}
	var list []int
	for h := range hs {
		list = append(list, h)
	}
	sort.Ints(list)
	ch := repoConcHeaders(maxH)
	var prev *bitcoin.Hash32
	prevH := -2
	for _, h := range list {
		got, err := repo.Hash(ctx, h)
		switch {
		case err != nil:
			fmt.Fprintf(&sb, " %d:err", h)
			if h <= tip {
				bad = append(bad, fmt.Sprintf("Hash(%d) fails at or below the tip %d (%s)", h, tip, errClass(err)))
			}
		case got == nil:
			fmt.Fprintf(&sb, " %d:nil", h)
			if h <= tip {
				bad = append(bad, fmt.Sprintf("Hash(%d) is empty at or below the tip %d", h, tip))
			}
		default:
			fmt.Fprintf(&sb, " %d:%s", h, got.String()[:6])
			if back, ok := repo.Height(got); !ok || back != h {
				bad = append(bad, fmt.Sprintf("Height(Hash(%d)) = %d,%v", h, back, ok))
			}
			if hd, err := repo.Header(ctx, h); err == nil && hd != nil && prev != nil && prevH == h-1 && !hd.PrevBlock.Equal(prev) {
				bad = append(bad, fmt.Sprintf("block at height %d does not link to the block at %d", h, h-1))
			}
			prev, prevH = got, h
		}
		// by hash, for the fixed chain's header of this height
		if h < len(ch) {
			hh := ch[h].BlockHash()
			if back, ok := repo.Height(hh); ok {
				fmt.Fprintf(&sb, "/%d", back)
				if g2, err := repo.Hash(ctx, back); err != nil || g2 == nil || !g2.Equal(hh) {
					bad = append(bad, fmt.Sprintf("Height(hash of fixed header %d) = %d but Hash(%d) does not return it", h, back, back))
				}
			} else {
				sb.WriteString("/-")
			}
		}
	}
	return sb.String(), bad
}

func (in *repoConcInst) outcome() (mem, disk string, bad []string) {
	maxH := in.sc.Pre + 6
	mem, bad = repoView(in.repo, maxH)
	mem += " errs=" + strings.Join(in.errs, ";")
	img := in.store.Clone()
	img.Record = false
	re := storage.NewBlockRepository(config.Config{Net: bitcoin.MainNet}, img)
	if err := re.Load(core.Ctx()); err != nil {
		disk = "load-error: " + errClass(err)
		bad = append(bad, "a fresh repository cannot load the storage left behind: "+errClass(err))
		return
	}
	var b2 []string
	disk, b2 = repoView(re, maxH)
	for _, b := range b2 {
		bad = append(bad, "after reload: "+b)
	}
	return
}

// repoConc explores every scenario and reports under prop.
func repoConc(rep *core.Report, prop string) {
	bound := 2
	if rep.Thorough() {
		bound = -1
	}
	execs, points, scN := 0, 0, 0
	for _, sc := range repoConcScenarios(rep.Thorough()) {
		scN++
		st := repoConcOne(rep, prop, sc, bound, nil)
		execs += st.Executions
		points += st.Points
		if st.Capped {
			rep.Exhaustive = false
			rep.Coverage["conc_cap_hit"] = sc.Name
		}
	}
	addInt(rep, "states", execs)
	addInt(rep, "transitions", points)
	addInt(rep, "traces_validated_against_impl", execs)
	rep.Coverage["conc_scenarios"] = scN
	rep.Coverage["conc_executions"] = execs
	rep.Coverage["conc_scheduling_points"] = points
	rep.Coverage["conc_preemption_bound"] = bound
	rep.Coverage["conc_rule"] = "block repository interleavings: 2-3 threads running save / add / revert programs on the real BlockRepository, every mutex and storage operation a scheduling point, all interleavings with at most conc_preemption_bound pre-emptions (-1 = all); end state (in-memory answers + what a fresh repository loads) must equal that of some sequential order, answers inverse and linked, reload succeeds"
}

// repoConcOne explores one scenario (or, with replay != nil, re-runs exactly that interleaving).
func repoConcOne(rep *core.Report, prop string, sc repoConcScenario, bound int, replay []int) concStats {
	// sequential reference: every order-preserving merge of the programs, run without scheduler
	allowed := map[string]bool{}
	allowedMem := map[string]bool{}
	for _, m := range merges(sc.Progs) {
		in := newRepoConcInst(sc, false)
		for _, op := range m {
			in.do(op)
		}
		mem, disk, bad := in.outcome()
		allowed[mem+" || "+disk] = true
		allowedMem[mem] = true
		for _, b := range bad {
			rep.AddViolation(core.Violation{Property: prop, Clause: "sequential-ops-consistent", Class: classOfBad(b), Detail: b,
				Witness: map[string]interface{}{"scenario": sc, "order": m}})
		}
	}
	var cur *repoConcInst
	spawn := func() {
		cur = newRepoConcInst(sc, true)
		in := cur
		for t, p := range sc.Progs {
			p := p
			vrt.Go(fmt.Sprintf("T%d", t), func() {
				for _, op := range p {
					in.do(op)
				}
			})
		}
	}
	each := func(x *concExec) {
		wit := func() map[string]interface{} {
			return map[string]interface{}{"kind": "repoconc", "scenario": sc, "choices": x.choices, "schedule": x.schedule}
		}
		if x.deadlock {
			rep.AddViolation(core.Violation{Property: prop, Clause: "concurrent-ops-atomic", Class: "deadlock", Detail: "threads blocked forever: " + joinProgs(sc.Progs), Witness: wit()})
			return
		}
		for _, p := range x.panics {
			rep.AddViolation(core.Violation{Property: prop, Clause: "concurrent-ops-atomic", Class: "panic", Detail: p, Witness: wit()})
			return
		}
		mem, disk, bad := cur.outcome()
		h := core.Hash20Of(mem + disk)
		rep.Outcome(fmt.Sprintf("conc %s %x", sc.Name, h[:4]))
		if !allowed[mem+" || "+disk] {
			what := "the stored chain (what a fresh repository loads)"
			if !allowedMem[mem] {
				what = "the in-memory answers"
			}
			rep.AddViolation(core.Violation{Property: prop, Clause: "concurrent-ops-atomic",
				Class:   fmt.Sprintf("end state of concurrent %s equals no sequential order of the operations: %s differ", opKinds(sc.Progs), what),
				Detail:  fmt.Sprintf("scenario %q (%s) from saved height %d: memory {%s} storage {%s}; sequential orders allow %d end states", sc.Name, joinProgs(sc.Progs), sc.Pre, mem, disk, len(allowed)),
				Witness: wit()})
		}
		for _, b := range bad {
			rep.AddViolation(core.Violation{Property: prop, Clause: "concurrent-ops-atomic", Class: classOfBad(b) + " after concurrent " + opKinds(sc.Progs), Detail: b + " - scenario " + sc.Name, Witness: wit()})
		}
	}
	if replay != nil {
		concLenient = true
		x := concRun(spawn, replay)
		concLenient = false
		each(x)
		return concStats{Executions: 1, Points: len(x.points)}
	}
	return concExplore(spawn, bound, 400000, each)
}

func addInt(rep *core.Report, k string, n int) {
	if v, ok := rep.Coverage[k].(int); ok {
		rep.Coverage[k] = v + n
	} else {
		rep.Coverage[k] = n
	}
}

func opKinds(progs [][]string) string {
	seen := map[string]bool{}
	for _, p := range progs {
		for _, op := range p {
			if i := strings.Index(op, ":"); i > 0 {
				op = op[:i]
			}
			seen[op] = true
		}
	}
	var ks []string
	for k := range seen {
		ks = append(ks, k)
	}
	sort.Strings(ks)
	return strings.Join(ks, "/")
}

func classOfBad(b string) string {
	// strip numbers so that the class is stable
	var sb strings.Builder
	for _, r := range b {
		if r >= '0' && r <= '9' {
			if !strings.HasSuffix(sb.String(), "#") {
				sb.WriteByte('#')
			}
			continue
		}
		sb.WriteRune(r)
	}
	return sb.String()
}

// concReplayers re-run one recorded interleaving (witness with "kind", "scenario" and "choices").
var concReplayers = map[string]func(prop string, wit json.RawMessage) []core.Violation{}

func concReplay(prop string, wit json.RawMessage) ([]core.Violation, bool) {
	var w struct {
		Kind    string `json:"kind"`
		Choices []int  `json:"choices"`
	}
	if json.Unmarshal(wit, &w) != nil || w.Kind == "" {
		return nil, false
	}
	f, ok := concReplayers[w.Kind]
	if !ok {
		return nil, false
	}
	return f(prop, wit), true
}

func init() {
	concReplayers["repoconc"] = func(prop string, wit json.RawMessage) []core.Violation {
		var w struct {
			Scenario repoConcScenario `json:"scenario"`
			Choices  []int            `json:"choices"`
		}
		json.Unmarshal(wit, &w)
		rep := core.NewReport(prop, "model_checking")
		repoConcOne(rep, prop, w.Scenario, 0, w.Choices)
		return rep.Violations
	}
}
