//go:build verif

package checks

import (
	"fmt"

	"github.com/tokenized/spynode/internal/verif/core"
	"github.com/tokenized/spynode/pkg/vrt"
)

// Deviation-bounded schedule exploration on top of the node world: an execution follows the
// canonical schedule except at the planned scheduling points, where either an environment action
// is injected (Stop, connection drop/reset) or the running thread is pre-empted in favour of
// another enabled thread.

type planStep struct {
	At   int64  `json:"at"`   // index of the scheduling point (points where the running thread could continue)
	Kind string `json:"kind"` // stop | drop | reset | switch
	Alt  int    `json:"alt"`  // switch: index among the other enabled threads
}

type schedPlan struct {
	Steps   []planStep
	next    int
	counter int64
	hit     *planStep
	Total   int64 // points seen (for enumerating "every point")
	applied []string
	skipped int
	suspended bool // while set, points are neither counted nor deviated (common boot phase)

	// select statements with several ready cases: Go picks one at random, so every alternative is
	// a legal execution. SelAlt[k] = case to take at the k-th such select (default 0).
	SelAlt   map[int]int
	selCount int
	SelSeen  []int // number of ready cases at each multi-ready select
}

// Preempt implements vrt.Policy: park the running thread when a planned point is reached.
func (p *schedPlan) Preempt(t *vrt.Thread, op *vrt.Op) bool {
	if t.Env || p.suspended {
		return false
	}
	p.counter++
	p.Total = p.counter
	if p.next < len(p.Steps) && p.Steps[p.next].At == p.counter {
		p.hit = &p.Steps[p.next]
		p.next++
		return true
	}
	return false
}

func (p *schedPlan) ChooseSelect(t *vrt.Thread, site string, n int) int {
	if p.suspended {
		return 0
	}
	k := p.selCount
	p.selCount++
	p.SelSeen = append(p.SelSeen, n)
	if alt, ok := p.SelAlt[k]; ok && alt < n {
		return alt
	}
	return 0
}

func (w *World) installPlan(steps []planStep) {
	w.plan = &schedPlan{Steps: steps}
	w.S.Policy = w.plan
}

// execPlanStep runs in harness context right after the pre-empted thread parked.
func (w *World) execPlanStep(parked *vrt.Thread) {
	st := w.plan.hit
	w.plan.hit = nil
	w.preferred = parked
	switch st.Kind {
	case "stop":
		if w.stopRequested {
			return
		}
		w.stopRequested = true
		w.stopAt = w.S.Now
		w.stopPhase = w.phaseOfNode()
		node := w.Node
		ctx := core.Ctx()
		t := vrt.GoEnv("App.Stop", func() {
			node.Stop(ctx)
			w.stopReturned = true
			w.stopReturnedAt = w.S.Now
		})
		// run the Stop call right now until it blocks, so that the request lands at this point
		w.S.Resume(t)
		w.plan.applied = append(w.plan.applied, "stop")
	case "drop":
		if w.P != nil && w.P.conn != nil && !w.P.conn.IsClosed() {
			w.P.conn.Close()
			w.restarts = append(w.restarts, w.S.Now)
			w.lastUnsync = w.S.Now
			w.plan.applied = append(w.plan.applied, "drop")
		}
	case "reset":
		if w.P != nil && w.P.conn != nil && !w.P.conn.IsClosed() {
			w.P.conn.ResetByPeer()
			w.restarts = append(w.restarts, w.S.Now)
			w.lastUnsync = w.S.Now
			w.plan.applied = append(w.plan.applied, "reset")
		}
	case "stall": // the running thread is slow: it does not continue for Alt milliseconds
		if traceOn {
			op := "?"
			if parked.Pending != nil {
				op = parked.Pending.Kind + "@" + parked.Pending.Site
			}
			w.tracef("STALL thread %s at %s for %d ms", parked.Label, op, st.Alt)
		}
		parked.StallUntil = w.S.Now + int64(st.Alt)*1e6
		w.slack += int64(st.Alt)*1e6 + 100e6
		if parked.Pending != nil {
			w.devSite = fmt.Sprintf("stall of %s at %s@%s", threadRole(parked.Label), parked.Pending.Kind, parked.Pending.Site)
		}
		w.preferred = nil
		w.plan.applied = append(w.plan.applied, "stall")
	case "switch":
		var others []*vrt.Thread
		for _, t := range w.S.Enabled() {
			if t != parked && !t.Env {
				others = append(others, t)
			}
		}
		if st.Alt < len(others) {
			if parked.Pending != nil {
				w.devSite = fmt.Sprintf("pre-emption of %s at %s@%s", threadRole(parked.Label), parked.Pending.Kind, parked.Pending.Site)
			}
			w.slack += 100e6
			w.preferred = nil
			w.S.Resume(others[st.Alt])
			if w.plan.hit != nil {
				w.execPlanStep(others[st.Alt])
			}
			w.preferred = parked
			w.plan.applied = append(w.plan.applied, "switch")
		} else {
			w.plan.skipped++
		}
	}
}

// threadRole maps a thread label (source position of its go statement) to a stable role name.
func threadRole(label string) string {
	return label
}
