//go:build verif

package checks

import (
	"strings"
	"encoding/json"
	"time"

	"github.com/tokenized/spynode/internal/verif/core"
)

// Node-level history checks for the transaction properties. Each has its own event alphabet
// (chosen so that the property's mechanisms collide) and reports only its own oracle clauses.

func c05NodeScenarios() []histParams {
	ev := []string{"tx:T:R1", "tx:U1:D1", "tx:T:D1", "tx:U1:D2", "tx:U1:R1", "tx:T:R3", "tx:U1:M1", "tx:U1:M2", "tx:U1:I1", "mine+:R1", "mine+:D2", "tick:250", "tick:2300", "restart"}
	// conflicts that span a clean restart or a crash (the mempool is rebuilt from what was persisted)
	focus := []string{"tx:T:R1", "tx:U1:D1", "tx:T:M2", "crash", "restart", "tick:2300"}
	return []histParams{{Prop: "C05", Cfg: txCfg(1), Boot: "synced", Events: ev, Tx: true},
		{Prop: "C05", Cfg: txCfg(1), Boot: "synced", Events: focus, Tx: true, ExtraDepth: 1}}
}

func c06Scenarios() []histParams {
	ev := []string{"tx:T:R1", "tx:U1:I1", "tx:T:R3", "tx:U1:D1", "tx:U1:D2", "inv:U1:D1", "inv:T:D2", "mine+:D1", "mine+:D2", "mine+:M1", "mine+:D1,I2", "mine+:R1", "mine:D2", "ans", "tick:250", "tick:2300"}
	// losers that were delivered before a clean restart or a crash
	focus := []string{"tx:T:R1", "tx:U1:D1", "restart", "crash", "mine+:", "mine+:D2", "mine+:D1", "offline:D2"}
	return []histParams{{Prop: "C06", Cfg: txCfg(1), Boot: "synced", Events: ev, Tx: true},
		{Prop: "C06", Cfg: txCfg(1), Boot: "synced", Events: focus, Tx: true}}
}

func c07Scenarios() []histParams {
	ev := []string{"tx:U1:R1", "inv:T:R1", "tx:T:R1", "ans", "tx:U1:D1", "tx:U1:D2", "tx:T:D1", "tx:T:R3", "tx:U1:M2", "local:R3", "tick:100", "tick:1900", "tick:2300", "mine+:R1", "mine+:", "restart"}
	// a conflicting tx confirmed while the node was down / catching up
	focus := []string{"tx:T:R1", "tx:U1:R1", "inv:T:R1", "offline:D2", "offline:", "restart", "tick:1900", "tick:2300"}
	// two untrusted peers: the one that was not asked re-requests after the window and delivers; the trusted peer never vouches
	two := []string{"inv:U1:R1", "inv:U2:R1", "tick:3100", "uping:U2", "uans:U2", "uans:U1", "tick:2300"}
	return []histParams{{Prop: "C07", Cfg: txCfg(1), Boot: "synced", Events: ev, Tx: true, Live: true},
		{Prop: "C07", Cfg: txCfg(1), Boot: "synced", Events: focus, Tx: true, Live: true},
		{Prop: "C07", Cfg: txCfg(2), Boot: "synced", Events: two, Tx: true, ExtraDepth: 2}}
}

func c11Scenarios() []histParams {
	ev := []string{"tx:T:R1", "tx:U1:R1", "tx:U1:D1", "inv:T:R1", "ans", "tick:2300", "restart", "restart:raw", "mine+:R1", "mine+:", "settle"}
	deep := []string{"tx:T:R1", "tx:U1:D1", "tx:U1:R1", "tick:2300", "restart", "mine+:R1", "mine+:D1", "mine+:"}
	// the application subscribes its filter only after the restarted node is already running
	late := []string{"tx:T:R1", "tick:2300", "restart:late", "tx:U1:R1", "tx:T:R1", "sub", "mine+:R1"}
	return []histParams{{Prop: "C11", Cfg: txCfg(1), Boot: "synced", Events: ev, Tx: true, Live: true},
		{Prop: "C11", Cfg: txCfg(1), Boot: "synced", Events: deep, Tx: true, ExtraDepth: 1, Live: true},
		{Prop: "C11", Cfg: txCfg(1), Boot: "synced", Events: late, Tx: true, ExtraDepth: 2}}
}

func c14Scenarios() []histParams {
	ev := []string{"inv:T:R1", "inv:U1:R1", "inv:U2:R1", "inv:T:R1,R3", "inv:U1:R3", "ans", "uans:U1", "uans:U2", "uping:U1", "uping:U2", "ping", "tick:1000", "tick:3100", "mine+:R1", "reorgmine:1:R1", "settle"}
	deep := []string{"inv:T:R1", "inv:U1:R1", "reorgmine:1:R1", "settle", "tick:3100", "uping:U1", "mine+:R1", "ans"}
	// one peer delivers, another only tracked the announcement and stays silent until the tx is confirmed
	two := []string{"inv:U1:R1", "inv:U2:R1", "uans:U1", "mineq:R1", "mine+:R1", "uping:U2", "tick:3100"}
	return []histParams{{Prop: "C14", Cfg: txCfg(2), Boot: "synced", Events: ev, Tx: true},
		{Prop: "C14", Cfg: txCfg(1), Boot: "synced", Events: deep, Tx: true, ExtraDepth: 2},
		{Prop: "C14", Cfg: txCfg(2), Boot: "synced", Events: two, Tx: true, ExtraDepth: 2},
		// the trusted peer's in-sync flag is cleared (fork announced, bodies outstanding) while untrusted peers deliver
		{Prop: "C14", Cfg: txCfg(2), Boot: "synced", Events: []string{"reorg:1:2", "inv:U1:R1", "uans:U1", "inv:U2:R1", "uping:U2", "tick:3100"}, Tx: true, ExtraDepth: 2}}
}

var histSched = map[string]func() []nschedTask{
	"C06": func() []nschedTask {
		sc := c06Scenarios()[0]
		return []nschedTask{
			// a relevant tx arrives while a block is being processed; a later block confirms a double spend of it
			{P: sc, Hist: []string{"mine:I1", "ans", "tick:250", "tx:T:R1", "tick:250", "mine+:D2", "tick:250"}},
			{P: sc, Hist: []string{"tx:T:R3", "mine:I2", "multi:ans|tx:U1:R1", "tick:250", "tx:T:R1", "tick:250", "mine+:D1", "tick:250", "mine+:M1"}},
		}
	},
	"C07": func() []nschedTask {
		sc := c07Scenarios()[0]
		return []nschedTask{
			{P: sc, Hist: []string{"multi:tx:T:R1|tx:U1:D1", "tick:1900", "multi:tx:T:R3|tx:U1:M2", "tick:2300", "mine:R3", "ans", "tick:250"}},
			{P: sc, Hist: []string{"tx:U1:R1", "tick:1900", "multi:inv:T:R1|tx:U1:D1", "tick:100", "tick:2300"}},
		}
	},
	"C14": func() []nschedTask {
		sc := c14Scenarios()[0]
		return []nschedTask{
			{P: sc, Hist: []string{"multi:inv:T:R1|inv:U1:R1|inv:U2:R1", "tick:1000", "multi:inv:T:R1,R3|inv:U1:R3|uping:U2", "tick:3100", "multi:ping|uping:U1|uping:U2", "tick:100"}},
			{P: sc, Hist: []string{"multi:inv:U1:R1|inv:U2:R1", "tick:3100", "multi:uping:U1|uping:U2|inv:T:R1", "multi:ans|uans:U1|uans:U2", "tick:100"}},
		}
	},
}

func regHist(prop string, sc func() []histParams, depthQ, depthT int, rule string, accept func(core.Violation) bool, extra ...func(*core.Report)) {
	All[prop] = func() int {
		var sched []nschedTask
		if f, ok := histSched[prop]; ok {
			sched = f()
			rule += ". Plus stateless schedule exploration: baselines with concurrent arrivals on several connections (all bytes delivered before any thread runs); one stall (250 ms) or pre-emption (2 alternatives) at every scheduling point, same oracles"
		}
		rep := core.NewReport(prop, "model_checking")
		for _, f := range extra {
			f(rep)
		}
		histCheckInto(rep, histCheck{prop: prop, scenarios: sc(), depthQ: depthQ, depthT: depthT, statesQ: 250000, statesT: 4000000,
			budgetQ: 150 * time.Second, budgetT: 25 * time.Minute, rule: rule, assume: peerAssumption, accept: accept, sched: sched})
		return rep.Finish()
	}
	Replayers[prop] = func(wit json.RawMessage) []core.Violation { return histReplay(wit, prop) }
}

func init() {
	c11rule := "explicit-state BFS over histories of deliveries, conflicts, safe reports and confirmations with a clean restart (Stop, new Node on the same store) inserted at any quiescent point; oracle: no second HandleTx after restart, later confirmation is an update with proof, safe not reported twice, flags sticky across restart, GetTx(txid) equals the delivered tx; plus a bounded-exhaustive save/load differential of the unconfirmed set over 0-2 (thorough 0-3) entries x all 8 flag combinations x 4 times with sub-millisecond parts (state dump and behavioural probe sequence before vs after reload)"
	All["C11"] = func() int {
		rep := core.NewReport("C11", "model_checking")
		n := 2
		if rep.Thorough() {
			n = 3
		}
		c11Component(rep, n)
		sc11 := c11Scenarios()[0]
		histCheckInto(rep, histCheck{prop: "C11", scenarios: c11Scenarios(), depthQ: 4, depthT: 6, statesQ: 250000, statesT: 4000000,
			sched: []nschedTask{
				// a relevant tx arrives while a block is being processed, then a clean restart, a re-announcement and its confirmation
				{P: sc11, Hist: []string{"mine+:", "mine:", "ans", "tick:250", "tx:T:R1", "tick:250", "restart", "tx:T:R1", "tx:U1:R1", "mine+:R1"}},
			},
			budgetQ: 150 * time.Second, budgetT: 25 * time.Minute, rule: c11rule + ". Plus stateless schedule exploration of one baseline (tx arriving while a block is processed, restart, re-announcement, confirmation): one stall (250 ms) or pre-emption at every scheduling point, same oracles", assume: peerAssumption, accept: func(v core.Violation) bool {
				return strings.Contains(v.Class, "across restart") || strings.Contains(v.Class, "after restart") || strings.Contains(v.Class, "before a clean restart")
			}})
		return rep.Finish()
	}
	Replayers["C11"] = func(wit json.RawMessage) []core.Violation { return histReplay(wit, "C11") }
	regHist("C06", c06Scenarios, 4, 6, "explicit-state BFS over histories: unconfirmed R1 (relevant), I1 (irrelevant), R3 delivered from trusted/untrusted peers; blocks confirming D1 (relevant double spend of R1), D2 (irrelevant double spend of R1), M1 (double spends I1 and R3), with or without the winner seen before; oracle: cancelled+unsafe update for every previously delivered loser, chain advances (block on the node's chain), block's relevant txs delivered with verified proofs", func(v core.Violation) bool {
		// "the block's own relevant transactions are delivered with proofs" is observed by the C03/C04 oracles
		return (v.Clause == "relevant-delivered" && strings.Contains(v.Class, "in processed block")) || v.Property == "C04"
	})
	regHist("C07", c07Scenarios, 4, 6, "explicit-state BFS over histories with the virtual clock (safe delay 2000 ms; steps 100/1900/2300 ms): untrusted tx, trusted inv, trusted tx, conflict before/between/after expiry, confirmation, local submission, restart; oracle on the per-txid sequence of states: never safe&unsafe, cancelled=>unsafe, no safe after unsafe, safe only with trusted vouch + no known conflict + delay, safe at most once, and (liveness phase from every state) safe within delay+500 ms when warranted", nil)
	regHist("C14", c14Scenarios, 4, 6, "explicit-state BFS over histories of inv announcements of overlapping txid sets from the trusted and two verified untrusted connections, deliveries, non-deliveries, pings (peer activity), clock steps 1 s / 3.1 s, confirmation; oracle over timestamped getdata(tx) on all connections: no two requests for a txid within 3 s, none after the body arrived, none after its block was processed, re-request from another announcer after the window", nil, c14Component)
}
