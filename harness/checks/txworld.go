//go:build verif

package checks

import (
	"github.com/tokenized/specification/dist/golang/actions"
	"github.com/tokenized/specification/dist/golang/protocol"
	"bytes"
	"reflect"
	"fmt"
	"sort"
	"strconv"
	"strings"
	"time"

	"github.com/tokenized/pkg/bitcoin"
	"github.com/tokenized/pkg/wire"
	"github.com/tokenized/spynode/internal/spynode"
	"github.com/tokenized/spynode/internal/verif/core"
	"github.com/tokenized/spynode/pkg/client"
	"github.com/tokenized/spynode/pkg/vrt"
)

// Transaction universe, transaction events and the per-property oracles of the node-level checks
// C03, C05, C06, C07, C11, C12, C14 (DESIGN §3.5/§3.6).

var (
	subKey   = core.Hash20Of("subscribed-key-1")
	otherKey = core.Hash20Of("other-key")
	fundHash = bitcoin.Hash32{0xfd, 0x01}
)

var untrustedAddrs = []string{"10.0.1.1:8333", "10.0.1.2:8333"}

type txInfo struct {
	name     string
	tx       *wire.MsgTx
	id       bitcoin.Hash32
	relevant bool
}

// arrival: one delivery of a tx body (or announcement) to the node by the environment.
type arrival struct {
	at      int64
	src     string // T | U1 | U2 | local | block
	kind    string // inv | tx
	ready   bool   // node reported in sync when it was delivered
	nodeGen int
	listened bool // the connection it arrived on was being listened to (untrusted: verified)
}

func (w *World) SetupTxUniverse() {
	rel := core.P2PKHScript(subKey)
	irr := core.P2PKHScript(otherKey)
	fund := func(i uint32) wire.OutPoint { return wire.OutPoint{Hash: fundHash, Index: i} }
	add := func(name string, ins []wire.OutPoint, outs [][]byte, salt uint32) {
		unlock := make([][]byte, len(ins))
		for i := range unlock {
			unlock[i] = core.PushScript([]byte{byte(salt), byte(i), 0x30, 0x44})
		}
		tx := core.MakeTx(ins, unlock, outs, salt)
		w.Txs[name] = tx
		w.TxNames[*tx.TxHash()] = name
		w.txOrder = append(w.txOrder, name)
	}
	add("R1", []wire.OutPoint{fund(0)}, [][]byte{rel, irr}, 1)
	add("R2", []wire.OutPoint{{Hash: *w.Txs["R1"].TxHash(), Index: 0}}, [][]byte{rel}, 2)
	add("I1", []wire.OutPoint{fund(1)}, [][]byte{irr}, 3)
	add("D1", []wire.OutPoint{fund(0)}, [][]byte{rel}, 4)  // relevant double spend of R1
	add("D2", []wire.OutPoint{fund(0)}, [][]byte{irr}, 5)  // irrelevant double spend of R1
	add("R3", []wire.OutPoint{fund(2)}, [][]byte{irr, rel}, 6)
	add("M1", []wire.OutPoint{fund(1), fund(2)}, [][]byte{rel}, 7) // conflicts with I1 and R3
	add("I2", []wire.OutPoint{fund(3)}, [][]byte{irr}, 8)
	add("M2", []wire.OutPoint{fund(0), fund(2)}, [][]byte{rel}, 9) // conflicts with R1 (first input) and R3 (second input)
	if w.cfg.Contracts {
		// a contract formation (relevant through the contract subscription alone) and a transfer (not contract wide)
		mk := func(a actions.Action) []byte {
			sc, err := protocol.Serialize(a, false)
			if err != nil {
				panic(err)
			}
			return sc
		}
		add("K1", []wire.OutPoint{fund(50)}, [][]byte{irr, mk(&actions.ContractFormation{ContractName: "c"})}, 50)
		add("K2", []wire.OutPoint{fund(51)}, [][]byte{mk(&actions.Transfer{}), irr}, 51)
	}
	for k := 0; k < w.cfg.Burst; k++ { // independent relevant txs for the back-pressure scenario
		add(fmt.Sprintf("B%03d", k), []wire.OutPoint{fund(uint32(100 + k))}, [][]byte{rel}, uint32(100+k))
	}
}

func (w *World) relevant(name string) bool {
	if w.cfg.Contracts && name == "K1" {
		return true
	}
	if len(w.cfg.Subscribe) == 0 && w.lateSub == nil {
		return false // no push data subscribed
	}
	for _, o := range w.Txs[name].TxOut {
		if bytes.Contains(o.LockingScript, subKey[:]) {
			return true
		}
	}
	return false
}

func (w *World) conflicts(a, b string) bool {
	if a == b {
		return false
	}
	for _, x := range w.Txs[a].TxIn {
		for _, y := range w.Txs[b].TxIn {
			if x.PreviousOutPoint.Hash == y.PreviousOutPoint.Hash && x.PreviousOutPoint.Index == y.PreviousOutPoint.Index {
				return true
			}
		}
	}
	return false
}

// SetupUntrusted registers untrusted peer addresses (score 5) in the store before the node starts.
func (w *World) SetupUntrusted(n int) {
	ctx := core.Ctx()
	tmp := spynode.NewNode(w.NodeCfg, w.Store, w.fetcher, w.fetcher)
	for i := 0; i < n; i++ {
		if err := tmp.AddPeer(ctx, untrustedAddrs[i], 5); err != nil {
			panic("harness: AddPeer: " + err.Error())
		}
		w.U[untrustedAddrs[i]] = &peerConn{addr: untrustedAddrs[i], announced: map[string]int64{}}
	}
	w.Store.Log = nil
}

func (w *World) connOf(src string) *peerConn {
	switch src {
	case "T":
		return w.P
	case "U1":
		return w.U[untrustedAddrs[0]]
	case "U2":
		return w.U[untrustedAddrs[1]]
	}
	return nil
}

func (w *World) noteArrival(name, src, kind string) {
	ready := w.Node.IsReady(core.Ctx())
	if src == "U1" || src == "U2" {
		ready = ready && w.untrustedVerified(w.connOf(src).addr)
	}
	listened := ready
	if src == "U1" || src == "U2" {
		listened = w.untrustedVerified(w.connOf(src).addr) // an untrusted connection is listened to once it is verified, whatever the trusted sync state
	}
	w.arrivals[name] = append(w.arrivals[name], arrival{at: w.S.Now, src: src, kind: kind,
		ready: ready, listened: listened, nodeGen: w.nodeGen})
}

// untrustedVerified asks the node (private state, by reflection) whether the connection to addr
// has passed header verification; falls back to the public ready count.
func (w *World) untrustedVerified(addr string) bool {
	list, ok := core.Field(w.Node, "untrustedNodes")
	if !ok || list.Kind() != reflect.Slice {
		return w.untrustedReady() == w.cfg.Untrusted
	}
	for i := 0; i < list.Len(); i++ {
		un := list.Index(i).Interface()
		a, ok1 := core.Field(un, "address")
		v, ok2 := core.Field(un, "untrustedState", "verified")
		st, ok3 := core.Field(un, "stopping")
		if ok1 && ok2 && a.String() == addr && v.Bool() && (!ok3 || !st.Bool()) {
			return true
		}
	}
	return false
}

// applyTxEvent handles the transaction-related events; returns (handled, applicable).
func (w *World) applyTxEvent(p []string) (bool, bool) {
	switch p[0] {
	case "inv": // inv:<src>:<tx>[,<tx>]
		pc := w.connOf(p[1])
		if pc == nil || pc.conn == nil || pc.conn.IsClosed() {
			return true, false
		}
		inv := wire.NewMsgInv()
		for _, n := range strings.Split(p[2], ",") {
			h := *w.Txs[n].TxHash()
			inv.AddInvVect(wire.NewInvVect(wire.InvTypeTx, &h))
			if p[1] == "T" {
				w.Mempool[n] = w.Txs[n]
			}
			w.uMempool(p[1], n)
			w.noteArrival(n, p[1], "inv")
		}
		w.send(pc, inv)
		w.settle()
		return true, true
	case "tx": // tx:<src>:<tx>
		pc := w.connOf(p[1])
		if pc == nil || pc.conn == nil || pc.conn.IsClosed() {
			return true, false
		}
		if p[1] == "T" {
			w.Mempool[p[2]] = w.Txs[p[2]]
		}
		w.uMempool(p[1], p[2])
		w.noteArrival(p[2], p[1], "tx")
		w.send(pc, w.Txs[p[2]])
		w.settle()
		return true, true
	case "ffail": // the application's output fetcher fails its next call (backend down)
		w.fetchFail = 1
		return true, true
	case "burst": // burst:<src>: the peer relays every B tx back to back (more than the node's tx channel buffers)
		pc := w.connOf(p[1])
		if pc == nil || pc.conn == nil || pc.conn.IsClosed() || w.bursted[p[1]] || w.cfg.Burst == 0 {
			return true, false
		}
		if w.bursted == nil {
			w.bursted = map[string]bool{}
		}
		w.bursted[p[1]] = true
		for k := 0; k < w.cfg.Burst; k++ {
			n := fmt.Sprintf("B%03d", k)
			if p[1] == "T" {
				w.Mempool[n] = w.Txs[n]
			}
			w.uMempool(p[1], n)
			w.noteArrival(n, p[1], "tx")
			w.send(pc, w.Txs[n])
		}
		w.settle()
		return true, true
	case "uans": // uans:<src>: untrusted peer answers its oldest pending request
		pc := w.connOf(p[1])
		if pc == nil || len(pc.pending) == 0 {
			return true, false
		}
		w.answerFrom(pc, p[1])
		w.settle()
		return true, true
	case "uping":
		pc := w.connOf(p[1])
		if pc == nil || pc.conn == nil || pc.conn.IsClosed() {
			return true, false
		}
		w.send(pc, wire.NewMsgPing(9))
		w.settle()
		return true, true
	case "astop": // the application calls Stop from its own thread (scripted; does not wait)
		if w.stopRequested {
			return true, false
		}
		w.stopRequested, w.stopAt, w.stopPhase = true, w.S.Now, w.phaseOfNode()
		node := w.Node
		vrt.GoEnv("App.Stop", func() {
			node.Stop(core.Ctx())
			w.stopReturned, w.stopReturnedAt = true, w.S.Now
		})
		w.settle()
		return true, true
	case "alocal": // alocal:<tx>: an application thread feeds a tx (HandleTx API) concurrently
		node, tx := w.Node, w.Txs[p[1]]
		w.noteArrival(p[1], "local", "tx")
		t := vrt.GoEnv("App.HandleTx", func() { node.HandleTx(core.Ctx(), tx) })
		t.Env = false
		w.settle()
		return true, true
	case "local": // local:<tx>: the application feeds a tx (HandleTx API)
		if err := w.Node.HandleTx(core.Ctx(), w.Txs[p[1]]); err != nil {
			return true, false
		}
		w.noteArrival(p[1], "local", "tx")
		w.settle()
		return true, true
	case "reorgmine": // reorgmine:<d>:<tx>: the peer reorganises d blocks away; the first new block contains tx
		d, _ := strconv.Atoi(p[1])
		if d >= len(w.Best)-1 || d < 1 {
			return true, false
		}
		w.Abandoned = append([]string(nil), w.Best...)
		w.Best = append([]string(nil), w.Best[:len(w.Best)-d]...)
		w.everReorged, w.lastUnsync = true, w.S.Now
		w.Extend(1, strings.Split(p[2], ","))
		w.Extend(d, nil)
		w.Announce(w.P)
		w.settle()
		return true, true
	case "mineq": // mineq:<txs>: mined, announced, served and processed while every untrusted peer stays silent
		var names []string
		if len(p) > 1 && p[1] != "" {
			names = strings.Split(p[1], ",")
		}
		w.Extend(1, names)
		w.Announce(w.P)
		w.settle()
		for i := 0; i < 3; i++ {
			for w.P != nil && len(w.P.pending) > 0 && w.P.pending[0].kind == "block" {
				w.answerTrusted(0)
				w.settle()
			}
			w.pingNode()
			w.Tick(250 * time.Millisecond)
		}
		return true, true
	case "mine", "mine+": // mine:<tx>[,<tx>]: the peer mines a block with these txs and announces it (mine+: and the node processes it)
		var names []string
		if len(p) > 1 && p[1] != "" {
			names = strings.Split(p[1], ",")
		}
		w.Extend(1, names)
		w.Announce(w.P)
		w.settle()
		if p[0] == "mine+" {
			w.settleMacro()
		}
		return true, true
	}
	return false, false
}

func (w *World) uMempool(src, name string) {
	if src == "U1" || src == "U2" {
		if w.UMempool[src] == nil {
			w.UMempool[src] = map[string]bool{}
		}
		w.UMempool[src][name] = true
	}
}

// answerFrom answers the oldest pending request of an untrusted connection.
func (w *World) answerFrom(pc *peerConn, src string) {
	r := pc.pending[0]
	if r.kind == "tx" {
		pc.pending = pc.pending[1:]
		if n, ok := w.TxNames[r.hash]; ok && w.UMempool[src][n] {
			w.noteArrival(n, src, "tx")
			w.send(pc, w.Txs[n])
		}
		return
	}
	w.Answer(pc, 0)
}

// Answer of a trusted tx request also counts as an arrival.
func (w *World) answerTrusted(k int) bool {
	if w.P == nil || k >= len(w.P.pending) {
		return false
	}
	r := w.P.pending[k]
	if r.kind == "tx" {
		if n, ok := w.TxNames[r.hash]; ok {
			if _, have := w.Mempool[n]; have {
				w.noteArrival(n, "T", "tx")
			}
		}
	}
	return w.Answer(w.P, k)
}

// bootUntrusted lets the configured untrusted peers connect and get verified.
func (w *World) bootUntrusted() bool {
	for i := 0; i < 40; i++ {
		w.Tick(500 * time.Millisecond)
		all := true
		for _, a := range untrustedAddrs[:w.cfg.Untrusted] {
			pc := w.U[a]
			if pc.conn == nil {
				all = false
				continue
			}
			for len(pc.pending) > 0 {
				w.Answer(pc, 0)
				w.settle()
			}
			w.send(pc, wire.NewMsgPing(3))
			w.settle()
		}
		w.pingNode()
		if all && w.untrustedReady() == w.cfg.Untrusted {
			return true
		}
	}
	return false
}

func (w *World) untrustedReady() int { return w.Node.OutgoingCount() }

// ---------------------------------------------------------------------------------------------
// Oracles over the callback logs

type txTrack struct {
	newCount int
	states   []client.TxState
	times    []int64
	gens     []int
	held     []string
	tx       *client.Tx
}

func (w *World) tracks(handler int) map[string]*txTrack {
	out := map[string]*txTrack{}
	for _, e := range w.H[handler].events {
		if e.Kind != "tx" && e.Kind != "update" {
			continue
		}
		n, ok := w.TxNames[e.TxID]
		if !ok {
			n = "?" + e.TxID.String()[:8]
		}
		t := out[n]
		if t == nil {
			t = &txTrack{}
			out[n] = t
		}
		if e.Kind == "tx" {
			t.newCount++
			if t.tx == nil {
				t.tx = e.Tx
			}
		}
		t.states = append(t.states, e.State)
		t.times = append(t.times, e.At)
		t.gens = append(t.gens, e.NodeID)
		t.held = append(t.held, e.Held)
	}
	return out
}

func (w *World) firstBody(name string) (arrival, bool) {
	for _, a := range w.arrivals[name] {
		if a.kind == "tx" {
			return a, true
		}
	}
	return arrival{}, false
}

// minedBlocks returns every block containing the tx (a tx can be mined again on another branch).
func (w *World) minedBlocks(name string) []*tblock {
	var out []*tblock
	for _, b := range w.Tree.blocks {
		for _, t := range b.txs {
			if t == name {
				out = append(out, b)
			}
		}
	}
	sort.Slice(out, func(i, j int) bool { return out[i].name < out[j].name })
	return out
}

// minedIn returns the block containing the tx, preferring the one on the peer's best chain.
func (w *World) minedIn(name string) *tblock {
	bs := w.minedBlocks(name)
	for _, b := range bs {
		if b.height < len(w.Best) && w.Best[b.height] == b.name {
			return b
		}
	}
	if len(bs) > 0 {
		return bs[0]
	}
	return nil
}

// oracleDelivery: C03 (and the both-handlers clause).
func (w *World) oracleDelivery() {
	t0, t1 := w.tracks(0), w.tracks(1)
	// both handlers see the same thing
	if len(w.H[0].events) != len(w.H[1].events) {
		w.fail("C03", "every-handler", "handlers got different numbers of callbacks", fmt.Sprintf("handler 0 got %d callbacks, handler 1 got %d", len(w.H[0].events), len(w.H[1].events)))
	}
	for n, t := range t0 {
		if strings.HasPrefix(n, "?") {
			continue
		}
		if u, ok := t1[n]; !ok || u.newCount != t.newCount {
			w.fail("C03", "every-handler", "handler 1 missed a new-tx notification", fmt.Sprintf("tx %s: handler 0 got %d HandleTx, handler 1 differs", n, t.newCount))
		}
		if !w.relevant(n) && t.newCount > 0 {
			w.fail("C03", "no-irrelevant-delivery", "non-matching tx delivered", fmt.Sprintf("tx %s does not match the subscription but was delivered", n))
		}
		if t.newCount > 1 && !w.reorgOrphaned(n) && !w.crashExempt(n) {
			src := ""
			for _, a := range w.arrivals[n] {
				src += a.src + "/" + a.kind + " "
			}
			cls := "tx delivered as new twice"
			if t.gens[0] != t.gens[len(t.gens)-1] {
				cls += " (across restart)"
			}
			if w.minedIn(n) != nil {
				cls += " (confirmed)"
			}
			w.fail("C03", "new-at-most-once", cls, fmt.Sprintf("tx %s got %d HandleTx notifications (arrivals: %s)", n, t.newCount, src))
		}
		if t.tx != nil {
			w.checkOutputs(n, t.tx)
		}
	}
	// completeness
	for _, n := range w.txOrder {
		if !w.relevant(n) {
			continue
		}
		should, why := w.shouldBeDelivered(n)
		if should && (t0[n] == nil || len(t0[n].states) == 0) {
			w.fail("C03", "relevant-delivered", "relevant tx not delivered ("+why+")", fmt.Sprintf("tx %s matches the subscription and %s but no handler notification exists", n, why))
		}
	}
}

// confirmationsNotified: a relevant tx in a block the node processed (block on the node's chain, its
// header announced to the handlers) has a notification carrying a proof for that block - a new tx
// or, if it had been delivered before (also before a clean restart), an update.
func (w *World) confirmationsNotified() {
	if w.everReorged || len(w.crashes) > 0 {
		return
	}
	t0 := w.tracks(0)
	for _, n := range w.txOrder {
		if !w.relevant(n) {
			continue
		}
		b := w.minedIn(n)
		if b == nil || !w.onNodeChain(b) || b.height < w.startHeightOnBest() {
			continue
		}
		processed := false
		for _, e := range w.H[0].events {
			if e.Kind == "headers" && e.Hash == b.hash {
				processed = true
			}
		}
		if !processed {
			continue
		}
		ok := false
		before := false
		if t := t0[n]; t != nil {
			for i, s := range t.states {
				if s.MerkleProof != nil && *s.MerkleProof.BlockHeader.BlockHash() == b.hash {
					ok = true
				}
				if s.MerkleProof == nil && t.gens[i] != w.nodeGen {
					before = true
				}
			}
		}
		if !ok {
			prop, cls := "C03", "relevant tx confirmed in a processed block got no notification with a proof"
			if before {
				prop, cls = "C11", cls+" (delivered before a clean restart)"
			}
			w.fail(prop, "confirmation-notified", cls, fmt.Sprintf("tx %s is in block %s, which the node processed, but no HandleTx/HandleTxUpdate with a proof for that block exists", n, b.name))
		}
	}
}

// shouldBeDelivered: body reached the node while it was in sync on a listened connection, was
// fed locally, or sits in a block of the node's chain at or above the start height.
func (w *World) shouldBeDelivered(name string) (bool, string) {
	for _, a := range w.arrivals[name] {
		if a.kind != "tx" || a.nodeGen != w.nodeGen {
			continue
		}
		if a.src == "local" {
			return true, "was submitted locally"
		}
		if a.ready && a.src == "T" && w.stayedReady(a.at) {
			return true, "its body arrived from the trusted peer while in sync"
		}
		if a.ready && (a.src == "U1" || a.src == "U2") && w.stayedReady(a.at) {
			return true, "its body arrived from a verified untrusted peer while in sync"
		}
	}
	if b := w.minedIn(name); b != nil {
		ctx := core.Ctx()
		h, err := w.Node.Hash(ctx, b.height)
		if err == nil && h != nil && h.Equal(&b.hash) && b.height >= w.startHeightOnBest() {
			return true, fmt.Sprintf("is in processed block %s", b.name)
		}
	}
	return false, ""
}

// stayedReady: no in-sync interruption (reorg, restart, reconnect) since t.
func (w *World) stayedReady(t int64) bool {
	return w.lastUnsync < t
}

func (w *World) reorgOrphaned(name string) bool {
	b := w.minedIn(name)
	if b == nil {
		return false
	}
	return !(b.height < len(w.Best) && w.Best[b.height] == b.name) || w.everReorged
}

func (w *World) checkOutputs(name string, tx *client.Tx) {
	if len(tx.Outputs) != len(tx.Tx.TxIn) {
		w.fail("C03", "spent-outputs", "wrong number of spent outputs", fmt.Sprintf("tx %s: %d inputs, %d outputs reported", name, len(tx.Tx.TxIn), len(tx.Outputs)))
		return
	}
	for i, in := range tx.Tx.TxIn {
		want := w.utxo(in.PreviousOutPoint)
		got := tx.Outputs[i]
		if got == nil || got.Value != want.Value || !bytes.Equal(got.LockingScript, want.LockingScript) {
			w.fail("C03", "spent-outputs", "spent output does not belong to the input", fmt.Sprintf("tx %s input %d: reported output %+v, want value %d script %x", name, i, got, want.Value, []byte(want.LockingScript)))
			return
		}
	}
}

// oracleFlags: C07 trajectory invariants, C05 conflict flagging, C06 cancellation, C04 proofs.
func (w *World) oracleFlags(final bool) {
	tr := w.tracks(0)
	delay := int64(w.cfg.SafeDelayMS) * 1e6
	for n, t := range tr {
		if strings.HasPrefix(n, "?") {
			w.fail("C03", "no-irrelevant-delivery", "notification for an unknown txid", "notification for txid "+n)
			continue
		}
		sawUnsafe := false
		safeReports := 0
		for i, s := range t.states {
			if s.Safe && s.UnSafe {
				w.fail("C07", "never-safe-and-unsafe", "state has safe and unsafe set", fmt.Sprintf("tx %s notification %d: %+v", n, i, s))
			}
			if s.Cancelled && !s.UnSafe {
				w.fail("C07", "cancelled-implies-unsafe", "cancelled without unsafe", fmt.Sprintf("tx %s notification %d: %+v", n, i, s))
			}
			if s.Safe && sawUnsafe {
				cls := "safe after unsafe"
				if s.MerkleProof != nil {
					cls += " (on confirmation)"
				}
				if t.gens[i] != t.gens[0] {
					cls += " (after restart)"
				}
				w.fail("C07", "no-safe-after-unsafe", cls, fmt.Sprintf("tx %s: notification %d says safe after an earlier unsafe/cancelled report", n, i))
			}
			if s.UnSafe || s.Cancelled {
				sawUnsafe = true
			}
			if i > 0 && s.Safe && t.states[i-1].Safe && (s.MerkleProof != nil) == (t.states[i-1].MerkleProof != nil) && s.Cancelled == t.states[i-1].Cancelled {
				cls := "safe reported again without any change"
				if t.gens[i] != t.gens[i-1] {
					cls += " (across restart)"
				}
				w.fail("C07", "safe-once", cls, fmt.Sprintf("tx %s: notification %d repeats the safe report of notification %d (proof present: %v)", n, i, i-1, s.MerkleProof != nil))
			}
			if s.Safe && s.MerkleProof == nil {
				safeReports++
				w.checkSafeWarranted(n, t, i, delay)
			}
			if s.MerkleProof != nil {
				w.checkProof(n, s)
				if t.held[i] != "" {
					w.fail("C04", "proof-against-held-header", "proof is for a header the node does not hold at that height when it notifies", fmt.Sprintf("tx %s notification %d: the node holds %s, the proof's header is %s", n, i, t.held[i], mp8(s)))
				}
			}
		}
		if safeReports > 1 {
			cls := "safe reported twice"
			if t.gens[0] != t.gens[len(t.gens)-1] {
				cls += " (across restart)"
			}
			w.fail("C07", "safe-once", cls, fmt.Sprintf("tx %s: %d unconfirmed notifications say safe", n, safeReports))
		}
	}
	if !final {
		return
	}
	// C05: both members of a conflicting pair whose bodies reached the node are flagged unsafe
	for _, a := range w.txOrder {
		ta := tr[a]
		if ta == nil || !w.relevant(a) {
			continue
		}
		hasConflict := false
		for _, b := range w.txOrder {
			if !w.conflicts(a, b) {
				continue
			}
			ab, okA := w.firstBody(a)
			bb, okB := w.firstBody(b)
			if !okA || !okB || !w.bodyProcessed(a) || !w.bodyProcessed(b) {
				continue
			}
			_ = ab
			_ = bb
			hasConflict = true
			if w.minedIn(a) != nil || w.minedIn(b) != nil {
				continue // confirmation paths are C06's business
			}
			later := ab.at
			if bb.at > later {
				later = bb.at
			}
			if w.evictedBefore(a, later) || w.evictedBefore(b, later) {
				continue // the earlier one was dropped from tracking by a confirmed double spend
			}
			flagged := false
			for _, s := range ta.states {
				if s.UnSafe {
					flagged = true
				}
			}
			if !flagged {
				order := "conflict seen after it"
				if bb.at < ab.at {
					order = "conflict seen before it"
				}
				w.fail("C05", "conflict-flagged-unsafe", order+"; conflicting tx "+relWord(w.relevant(b)), fmt.Sprintf("tx %s and %s spend a common outpoint and both reached the node, but %s was never reported unsafe", a, b, a))
			}
		}
		if !hasConflict && !w.anyConflictArrived(a) {
			for i, s := range ta.states {
				if s.UnSafe && !s.Cancelled {
					w.fail("C05", "no-spurious-unsafe", "unsafe without any conflicting tx", fmt.Sprintf("tx %s notification %d is unsafe although no tx sharing an outpoint ever reached the node", a, i))
					break
				}
			}
		}
	}
	// C06: a confirmed double spend cancels the previously delivered loser
	for _, b := range w.Tree.blocks {
		if len(b.txs) == 0 || !w.onNodeChain(b) {
			continue
		}
		for _, c := range b.txs {
			for _, u := range w.txOrder {
				if !w.conflicts(c, u) || !w.relevant(u) {
					continue
				}
				tu := tr[u]
				if tu == nil || tu.newCount == 0 || w.minedIn(u) != nil {
					continue
				}
				// u was delivered unconfirmed before the block was processed?
				if !w.deliveredBeforeBlock(u, b) {
					continue
				}
				ok := false
				for _, s := range tu.states {
					if s.Cancelled && s.UnSafe {
						ok = true
					}
				}
				if !ok {
					seen := "first seen in the block"
					if w.bodyBefore(c, b) {
						seen = "seen before the block"
					}
					w.fail("C06", "loser-cancelled", "no cancelled+unsafe update for the losing tx; winner "+relWord(w.relevant(c))+", "+seen, fmt.Sprintf("block %s confirms %s which double spends delivered unconfirmed tx %s, but no cancelled+unsafe update was sent for it", b.name, c, u))
				}
			}
		}
	}
}

func relWord(b bool) string {
	if b {
		return "relevant"
	}
	return "irrelevant"
}

func (w *World) onNodeChain(b *tblock) bool {
	h, err := w.Node.Hash(core.Ctx(), b.height)
	return err == nil && h != nil && h.Equal(&b.hash)
}

func (w *World) deliveredBeforeBlock(u string, b *tblock) bool {
	var tDelivered int64 = -1
	for _, e := range w.H[0].events {
		if e.Kind == "tx" && w.TxNames[e.TxID] == u {
			tDelivered = e.At
			break
		}
	}
	if tDelivered < 0 {
		return false
	}
	for _, e := range w.H[0].events {
		if e.Kind == "headers" && e.Hash == b.hash {
			// across a clean restart the delivered loser is still tracked (persisted unconfirmed set, put
			// back into the mempool on load); only an unclean crash may have lost it
			// (and not even that if a block was processed between the delivery and the crash: finishing a
			// block writes the unconfirmed set)
			return tDelivered <= e.At && (w.sameGen(u, e.NodeID) || !w.crashLostTracking(tDelivered, e.At))
		}
	}
	return false
}

func (w *World) sameGen(u string, gen int) bool {
	for _, e := range w.H[0].events {
		if e.Kind == "tx" && w.TxNames[e.TxID] == u {
			return e.NodeID == gen
		}
	}
	return false
}

// bodyProcessed: a body delivered to the node on a listened connection while in sync.
func (w *World) bodyProcessed(name string) bool {
	for _, a := range w.arrivals[name] {
		if a.kind == "tx" && (a.src == "local" || (a.ready && w.stayedReady(a.at))) {
			return true
		}
	}
	return w.trackedAcrossRestarts(name)
}

// trackedAcrossRestarts: a relevant tx that was delivered stays tracked - in the persisted
// unconfirmed set and, because the node puts that set back into the mempool when it loads, in the
// double-spend index - through reconnects and clean restarts; only an unclean crash may lose it.
func (w *World) trackedAcrossRestarts(name string) bool {
	if !w.relevant(name) {
		return false
	}
	t := w.tracks(0)[name]
	return t != nil && t.newCount > 0 && !w.crashAfter(t.times[0])
}

func (w *World) anyConflictArrived(name string) bool {
	for _, b := range w.txOrder {
		if w.conflicts(name, b) {
			if _, ok := w.firstBody(b); ok {
				return true
			}
			if w.minedIn(b) != nil {
				return true
			}
		}
	}
	return false
}

// checkSafeWarranted: an unconfirmed safe report for a non-local tx needs a trusted vouch, no
// known conflict and the delay.
func (w *World) checkSafeWarranted(n string, t *txTrack, i int, delay int64) {
	at := t.times[i]
	local := false
	var vouch int64 = -1
	var first int64 = -1
	for _, a := range w.arrivals[n] {
		if a.at > at {
			continue
		}
		if a.src == "local" {
			local = true
		}
		if a.src == "T" && vouch < 0 {
			vouch = a.at
		}
		if a.kind == "tx" && first < 0 {
			first = a.at
		}
	}
	if local {
		return
	}
	if vouch < 0 {
		w.fail("C07", "safe-needs-trusted-vouch", "safe without trusted announcement", fmt.Sprintf("tx %s reported safe at %d ms but the trusted peer never announced or sent it", n, at/1e6))
	}
	for _, b := range w.txOrder {
		if !w.conflicts(n, b) {
			continue
		}
		if mb := w.minedIn(b); mb != nil && w.onNodeChain(mb) {
			// the conflicting tx is confirmed in a block the node processed before it said "safe"
			for _, e := range w.H[0].events {
				if e.Kind == "headers" && e.Hash == mb.hash && e.At+w.slack < at {
					w.fail("C07", "safe-needs-no-conflict", "safe although a conflicting tx is confirmed", fmt.Sprintf("tx %s reported safe at %d ms although block %s with conflicting tx %s was processed at %d ms", n, at/1e6, mb.name, b, e.At/1e6))
					break
				}
			}
		}
		if w.evictedBefore(b, at) {
			continue // a confirmed double spend removed it from tracking: it is not a known conflict any more
		}
		for _, a := range w.arrivals[b] {
			if a.kind == "tx" && a.at+w.slack < at && (a.src == "local" || a.ready) && (a.nodeGen == t.gens[i] || w.trackedAcrossRestarts(b)) {
				w.fail("C07", "safe-needs-no-conflict", "safe although a conflicting tx is known", fmt.Sprintf("tx %s reported safe at %d ms although conflicting tx %s reached the node at %d ms", n, at/1e6, b, a.at/1e6))
			}
		}
	}
	if first >= 0 && at-first < delay {
		w.fail("C07", "safe-needs-delay", "safe before the delay elapsed", fmt.Sprintf("tx %s reported safe %d ms after it was first seen (delay %d ms)", n, (at-first)/1e6, delay/1e6))
	}
}

// checkProof: C04 independent verification of a confirmation's merkle proof.
func (w *World) checkProof(n string, s client.TxState) {
	mp := s.MerkleProof
	b := w.minedIn(n)
	for _, x := range w.minedBlocks(n) {
		if x.hash == *mp.BlockHeader.BlockHash() {
			b = x
		}
	}
	if b == nil {
		w.fail("C04", "proof-for-mined-tx", "proof for a tx that is in no block", "tx "+n)
		return
	}
	id := *w.Txs[n].TxHash()
	idx := -1
	for i, t := range b.msg.Transactions {
		if *t.TxHash() == id {
			idx = i
		}
	}
	if int(mp.Index) != idx {
		w.fail("C04", "proof-index", fmt.Sprintf("index off by %d", int(mp.Index)-idx), fmt.Sprintf("tx %s is at index %d of block %s, proof says %d", n, idx, b.name, mp.Index))
	}
	if s.UnconfirmedDepth != 0 {
		w.fail("C04", "confirmed-depth-zero", "unconfirmed depth not zero", fmt.Sprintf("tx %s confirmation has UnconfirmedDepth %d", n, s.UnconfirmedDepth))
	}
	root := verifyClientProof(id, mp)
	hdr, err := w.Node.Hash(core.Ctx(), b.height)
	_ = hdr
	if err == nil && !bytes.Equal(root[:], b.msg.Header.MerkleRoot[:]) {
		w.fail("C04", "proof-verifies", fmt.Sprintf("proof does not hash to the merkle root (block of %d txs, index %d)", len(b.msg.Transactions), idx), fmt.Sprintf("tx %s in block %s: path %d hashes, duplicated %v", n, b.name, len(mp.Path), mp.DuplicatedIndexes))
	}
	if *mp.BlockHeader.BlockHash() != b.hash {
		w.fail("C04", "proof-header", "proof carries another block header", fmt.Sprintf("tx %s: proof header is not block %s", n, b.name))
	}
	// the notification goes to remote clients and into the stored tx state through the codec: the proof
	// has to survive that trip (decode without error, verify to the same root)
	var buf bytes.Buffer
	u := &client.TxUpdate{ID: 1, TxID: id, State: s}
	if err := u.Serialize(&buf); err != nil {
		w.fail("C04", "proof-survives-codec", "confirmation cannot be serialised", fmt.Sprintf("tx %s: %v", n, err))
		return
	}
	var u2 client.TxUpdate
	if err := u2.Deserialize(&buf); err != nil {
		w.fail("C04", "proof-survives-codec", "serialised confirmation cannot be decoded again", fmt.Sprintf("tx %s (index %d of %d txs): %v", n, idx, len(b.msg.Transactions), err))
		return
	}
	if u2.State.MerkleProof == nil || verifyClientProof(id, u2.State.MerkleProof) != root {
		w.fail("C04", "proof-survives-codec", "proof differs after a codec round trip", fmt.Sprintf("tx %s (index %d of %d txs)", n, idx, len(b.msg.Transactions)))
	}
}

// verifyClientProof recomputes the root from a client.MerkleProof: at the layers listed in
// DuplicatedIndexes (1-based layer numbers) the running hash is paired with itself, otherwise
// with the next path element.
func verifyClientProof(txid bitcoin.Hash32, mp *client.MerkleProof) [32]byte {
	cur := [32]byte(txid)
	index := mp.Index
	pathIdx := 0
	dup := map[uint64]bool{}
	for _, d := range mp.DuplicatedIndexes {
		dup[d] = true
	}
	layers := len(mp.Path) + len(mp.DuplicatedIndexes)
	for layer := 1; layer <= layers; layer++ {
		var sib [32]byte
		if dup[uint64(layer)] {
			sib = cur
		} else if pathIdx < len(mp.Path) {
			sib = mp.Path[pathIdx]
			pathIdx++
		}
		var buf [64]byte
		if index%2 == 0 {
			copy(buf[:32], cur[:])
			copy(buf[32:], sib[:])
		} else {
			copy(buf[:32], sib[:])
			copy(buf[32:], cur[:])
		}
		cur = core.DoubleSha(buf[:])
		index /= 2
	}
	return cur
}

// oracleRequests: C14, over the timestamped getdata(tx) messages of all connections.
func (w *World) oracleRequests() {
	type reqEv struct {
		at  int64
		src string
	}
	reqs := map[string][]reqEv{}
	collect := func(pc *peerConn, src string) {
		if pc == nil {
			return
		}
		for i, m := range pc.recvLog {
			gd, ok := m.(*wire.MsgGetData)
			if !ok {
				continue
			}
			for _, iv := range gd.InvList {
				if iv.Type == wire.InvTypeTx {
					if n, ok := w.TxNames[iv.Hash]; ok {
						reqs[n] = append(reqs[n], reqEv{pc.recvAt[i], src})
					}
				}
			}
		}
	}
	for _, pc := range w.PConns {
		collect(pc, "T")
	}
	collect(w.U[untrustedAddrs[0]], "U1")
	collect(w.U[untrustedAddrs[1]], "U2")
	for n, rs := range reqs {
		sort.Slice(rs, func(i, j int) bool { return rs[i].at < rs[j].at })
		for i := 1; i < len(rs); i++ {
			if rs[i].at-rs[i-1].at < int64(3*time.Second)-w.slack && !w.restartBetween(rs[i-1].at, rs[i].at) && !w.confirmedBetween(n, rs[i-1].at, rs[i].at) {
				w.fail("C14", "one-request-per-window", fmt.Sprintf("second request after %d ms (%s then %s)", (rs[i].at-rs[i-1].at)/1e6/500*500, srcClass(rs[i-1].src), srcClass(rs[i].src)),
					fmt.Sprintf("tx %s requested from %s at %d ms and from %s at %d ms", n, rs[i-1].src, rs[i-1].at/1e6, rs[i].src, rs[i].at/1e6))
			}
		}
		if fb, ok := w.firstListenedBody(n); ok {
			for _, r := range rs {
				if r.at > fb.at+w.slack && !w.restartBetween(fb.at, r.at) && (w.stayedReady(fb.at) || !fb.ready) && !w.reconnectBetween(fb.at, r.at) && !w.confirmedBetween(n, fb.at, r.at) {
					w.fail("C14", "no-request-after-body", "requested after the body arrived", fmt.Sprintf("tx %s body arrived at %d ms, requested again from %s at %d ms", n, fb.at/1e6, r.src, r.at/1e6))
				}
			}
		}
		if b := w.minedIn(n); b != nil && w.onNodeChain(b) {
			var processedAt int64 = -1
			for _, e := range w.H[0].events {
				if e.Kind == "headers" && e.Hash == b.hash {
					processedAt = e.At
				}
			}
			for _, r := range rs {
				if processedAt >= 0 && r.at > processedAt+w.slack && !w.announcedBetween(n, processedAt, r.at) {
					w.fail("C14", "confirmed-forgotten", "requested after its block was processed", fmt.Sprintf("tx %s confirmed in block processed at %d ms, requested from %s at %d ms", n, processedAt/1e6, r.src, r.at/1e6))
				}
			}
		}
	}
	// re-request: the asked peer stayed silent past the window and another announcer was active
	for n, rs := range reqs {
		if _, ok := w.firstBody(n); ok || w.minedIn(n) != nil || len(rs) == 0 {
			continue
		}
		r0 := rs[0]
		deadline := r0.at + int64(3*time.Second)
		if !w.stayedReady(r0.at) || w.restartBetween(r0.at, w.S.Now) {
			continue
		}
		for _, a := range w.arrivals[n] {
			if a.kind != "inv" || a.src == r0.src || !a.ready || a.at < r0.at || a.at >= deadline {
				continue
			}
			// a.src announced it while the first request was active, so it is the fallback source
			pc := w.connOf(a.src)
			if a.src == "T" {
				pc = w.P
			}
			if pc == nil {
				continue
			}
			var activity int64 = -1
			for _, t := range pc.sentAt {
				if t > deadline {
					activity = t
					break
				}
			}
			if activity < 0 {
				continue
			}
			again := false
			for _, r := range rs[1:] {
				if r.at >= deadline {
					again = true
				}
			}
			if !again {
				w.fail("C14", "re-request-after-window", "no re-request from the other announcer ("+srcClass(a.src)+") after the window", fmt.Sprintf("tx %s: requested from %s at %d ms, never delivered; %s announced it at %d ms and was active at %d ms (window ended %d ms) but was never asked", n, r0.src, r0.at/1e6, a.src, a.at/1e6, activity/1e6, deadline/1e6))
			}
		}
	}
	w.lastReqs = map[string]int{}
	for n, rs := range reqs {
		w.lastReqs[n] = len(rs)
	}
}

func srcClass(s string) string {
	if s == "T" {
		return "trusted"
	}
	return "untrusted"
}

func (w *World) restartBetween(a, b int64) bool {
	for _, t := range w.restarts {
		if t >= a && t <= b {
			return true
		}
	}
	return false
}

// txMonitorKey summarises history-dependent oracle state for the state key.
func (w *World) txMonitorKey() string {
	var parts []string
	tr := w.tracks(0)
	for _, n := range w.txOrder {
		t := tr[n]
		arr := ""
		for _, a := range w.arrivals[n] {
			arr += a.src + a.kind[:1] + strconv.FormatBool(a.ready)[:1] + fmt.Sprint((w.S.Now-a.at)/1e8) + ","
		}
		if t == nil && arr == "" {
			continue
		}
		st := ""
		if t != nil {
			st = fmt.Sprintf("n%d", t.newCount)
			for _, s := range t.states {
				st += fmt.Sprintf("|%v%v%v%v", s.Safe, s.UnSafe, s.Cancelled, s.MerkleProof != nil)
			}
		}
		parts = append(parts, n+":"+arr+":"+st)
	}
	return strings.Join(parts, ";")
}

// crashExempt: a second new-tx notification after an unclean process death is only held against
// the node if it had persisted its tracking in between, which it does after every processed
// block (so: exempt unless the first delivery was followed by a processed block before the crash).
func (w *World) crashExempt(n string) bool {
	if len(w.crashes) == 0 {
		return false
	}
	type ne struct {
		idx int
		e   cbEvent
	}
	var news []ne
	for i, e := range w.H[0].events {
		if e.Kind == "tx" && w.TxNames[e.TxID] == n {
			news = append(news, ne{i, e})
		}
	}
	for i := 1; i < len(news); i++ {
		a, b := news[i-1], news[i]
		crashed := false
		for _, c := range w.crashes {
			if c >= a.e.At && c <= b.e.At {
				crashed = true
				// the unconfirmed set is written at the end of every processed block
				if a.e.State.MerkleProof == nil {
					for j := a.idx + 1; j < len(w.H[0].events); j++ {
						e := w.H[0].events[j]
						if e.Kind == "headers" && e.NodeID == a.e.NodeID && e.At <= c {
							return false
						}
					}
				}
			}
		}
		if !crashed {
			return false
		}
	}
	return true
}

// bodyBefore: the body of tx c had reached the node (in sync) before block b was processed.
func (w *World) bodyBefore(c string, b *tblock) bool {
	var processedAt int64 = -1
	for _, e := range w.H[0].events {
		if e.Kind == "headers" && e.Hash == b.hash {
			processedAt = e.At
		}
	}
	for _, a := range w.arrivals[c] {
		if a.kind == "tx" && a.ready && processedAt >= 0 && a.at <= processedAt {
			return true
		}
	}
	return false
}

// confirmedBetween: the tx's confirming block was processed between the two instants (the node
// keeps no record of confirmed txs, so a fresh announcement after that starts over).
func (w *World) confirmedBetween(n string, a, b int64) bool {
	for _, blk := range w.minedBlocks(n) {
		for _, e := range w.H[0].events {
			if e.Kind == "headers" && e.Hash == blk.hash && e.At >= a && e.At <= b {
				return true
			}
		}
	}
	return false
}

// announcedBetween: a new inv for the tx arrived in (a, b].
func (w *World) announcedBetween(n string, a, b int64) bool {
	for _, x := range w.arrivals[n] {
		if x.kind == "inv" && x.at >= a && x.at <= b {
			return true
		}
	}
	return false
}

// evictedBefore: a block confirming a tx that conflicts with name was processed before t.
func (w *World) evictedBefore(name string, t int64) bool {
	for _, b := range w.Tree.blocks {
		for _, c := range b.txs {
			if !w.conflicts(c, name) {
				continue
			}
			for _, e := range w.H[0].events {
				if e.Kind == "headers" && e.Hash == b.hash && e.At <= t {
					return true
				}
			}
		}
	}
	return false
}

func mp8(s client.TxState) string {
	return s.MerkleProof.BlockHeader.BlockHash().String()[:8]
}

func (w *World) crashBetween(a, b int64) bool {
	for _, c := range w.crashes {
		if c >= a && c <= b {
			return true
		}
	}
	return false
}

// crashLostTracking: an unclean crash between a and b that may have lost txs delivered at a - no
// block was processed between a and that crash.
func (w *World) crashLostTracking(a, b int64) bool {
	for _, c := range w.crashes {
		if c < a || c > b {
			continue
		}
		persisted := false
		for _, e := range w.H[0].events {
			if e.Kind == "headers" && e.At > a && e.At <= c {
				persisted = true
			}
		}
		if !persisted {
			return true
		}
	}
	return false
}

// firstListenedBody: the first arrival of the tx body on a connection the node was listening to.
func (w *World) firstListenedBody(name string) (arrival, bool) {
	for _, a := range w.arrivals[name] {
		if a.kind == "tx" && (a.ready || a.listened) {
			return a, true
		}
	}
	return arrival{}, false
}

// reconnectBetween: the trusted connection was lost and re-established in (a, b] (the state, incl. what
// trusted tx bodies are accepted, is reset then).
func (w *World) reconnectBetween(a, b int64) bool {
	for _, t := range w.restarts {
		if t > a && t <= b {
			return true
		}
	}
	return false
}
