//go:build verif

package checks

import (
	"bytes"
	"reflect"
	"context"
	"fmt"
	"sort"
	"strings"
	"time"

	"github.com/tokenized/pkg/bitcoin"
	"github.com/tokenized/pkg/wire"
	"github.com/tokenized/spynode/internal/platform/config"
	"github.com/tokenized/spynode/internal/spynode"
	"github.com/tokenized/spynode/internal/verif/core"
	"github.com/tokenized/spynode/pkg/client"
	"github.com/tokenized/spynode/pkg/vrt"
	"github.com/tokenized/spynode/pkg/vrt/vnet"
)

// The closed system for node-level checks: the real Node.Run under the controlled scheduler,
// a trusted peer model P, optional untrusted peers, recording handlers and an application actor.
// See DESIGN.md §3.5.

const (
	trustedAddr = "10.0.0.1:8333"
	netMagic    = wire.BitcoinNet(bitcoin.MainNet)
)

// ---------------------------------------------------------------------------------------------
// Block tree

type tblock struct {
	name   string
	parent string
	height int
	msg    *wire.MsgBlock
	hash   bitcoin.Hash32
	txs    []string
	boot   bool // part of the peer's chain before the node started
}

type tree struct {
	blocks map[string]*tblock
	byHash map[bitcoin.Hash32]string
	salt   uint32
}

func newTree() *tree {
	t := &tree{blocks: map[string]*tblock{}, byHash: map[bitcoin.Hash32]string{}}
	g := core.GenesisHeader()
	gb := &tblock{name: "g", height: 0, msg: &wire.MsgBlock{Header: g}, hash: *g.BlockHash()}
	t.blocks["g"] = gb
	t.byHash[gb.hash] = "g"
	return t
}

// mine adds a block on top of parent containing txs (names resolved by the caller).
func (t *tree) mine(parent string, txs []*wire.MsgTx, txNames []string) *tblock {
	p := t.blocks[parent]
	t.salt++
	name := fmt.Sprintf("b%d@%d", t.salt, p.height+1)
	msg := core.MakeBlock(p.hash, p.height+1, t.salt, txs)
	b := &tblock{name: name, parent: parent, height: p.height + 1, msg: msg, hash: *msg.Header.BlockHash(), txs: txNames}
	t.blocks[name] = b
	t.byHash[b.hash] = name
	return b
}

// ---------------------------------------------------------------------------------------------
// Recorder: a client.Handler that records every callback with the virtual time.

type cbEvent struct {
	Kind   string // tx | update | headers | insync | message
	At     int64
	TxID   bitcoin.Hash32
	Tx     *client.Tx
	State  client.TxState
	Height int
	Hash   bitcoin.Hash32
	Prev   bitcoin.Hash32
	NodeID int
	Held   string // for a notification with a merkle proof: "" if the node holds the proof's header at that height when notified, else what it holds
}

type recorder struct {
	w      *World
	id     int
	events []cbEvent
}

func (r *recorder) add(e cbEvent) {
	e.At = vrt.NowNS()
	if traceOn && r.id == 0 {
		r.w.tracef("CALLBACK %s h=%d tx=%s state=%+v", e.Kind, e.Height, e.TxID.String()[:8], e.State)
	}
	e.NodeID = r.w.nodeGen
	if mp := e.State.MerkleProof; mp != nil && r.id == 0 && r.w.Node != nil {
		// which header does the node hold, right now, at the height of the proof's block?
		ph := *mp.BlockHeader.BlockHash()
		if bn, ok := r.w.Tree.byHash[ph]; ok {
			h := r.w.Tree.blocks[bn].height
			r.w.Store.Paused = true
			got, err := r.w.Node.Hash(core.Ctx(), h)
			r.w.Store.Paused = false
			switch {
			case err != nil || got == nil:
				e.Held = fmt.Sprintf("nothing at height %d", h)
			case !got.Equal(&ph):
				e.Held = fmt.Sprintf("another block at height %d", h)
			}
		} else {
			e.Held = "unknown header"
		}
	}
	r.events = append(r.events, e)
	if r.w.onCallback != nil {
		r.w.onCallback(r.id, e)
	}
}

func (r *recorder) HandleTx(ctx context.Context, tx *client.Tx) {
	r.add(cbEvent{Kind: "tx", TxID: *tx.Tx.TxHash(), Tx: tx, State: tx.State.Copy()})
}

func (r *recorder) HandleTxUpdate(ctx context.Context, u *client.TxUpdate) {
	r.add(cbEvent{Kind: "update", TxID: u.TxID, State: u.State.Copy()})
}

func (r *recorder) HandleHeaders(ctx context.Context, h *client.Headers) {
	for i, hd := range h.Headers {
		r.add(cbEvent{Kind: "headers", Height: int(h.StartHeight) + i, Hash: *hd.BlockHash(), Prev: hd.PrevBlock})
	}
}

func (r *recorder) HandleInSync(ctx context.Context) { r.add(cbEvent{Kind: "insync"}) }

func (r *recorder) HandleMessage(ctx context.Context, p client.MessagePayload) {
	r.add(cbEvent{Kind: "message"})
}

// DumpKey: the callback log is history, not state; the monitors that depend on history add their
// own compact keys to the state key (World.extraKey).
func (r *recorder) DumpKey() string { return fmt.Sprintf("rec%d", r.id) }

// ---------------------------------------------------------------------------------------------
// Peer model

type peerReq struct {
	kind    string // getheaders | block | tx | mempool | getaddr
	locator []bitcoin.Hash32
	hash    bitcoin.Hash32
}

// hdrMsg: one headers message of the peer and what its best chain was when it sent it.
type hdrMsg struct {
	end      int64  // bytes written on the connection including this message
	bestTip  string // the peer's best tip at that moment
	bestH    int
	reachedTip bool // the message ended at that tip (or was empty because the locator was the tip)
}

type peerConn struct {
	conn        *vnet.VConn
	addr        string
	trusted     bool
	gotVersion  bool
	gotVerack   bool
	sendHeaders bool
	pending     []peerReq
	sentLog     [][]byte // every message written to the node on this connection
	sentAt      []int64
	recvLog     []wire.Message
	recvAt      []int64
	announced   map[string]int64 // block name -> total bytes written when its header had been sent
	written     int64
	lastTold    string // tip the peer believes the node knows (for announcements)
	hdrMsgs     []hdrMsg // every headers message sent on this connection
	gen         int
}

func (pc *peerConn) key() string {
	var sb strings.Builder
	fmt.Fprintf(&sb, "%s v%v a%v sh%v told=%s pend=[", pc.addr, pc.gotVersion, pc.gotVerack, pc.sendHeaders, pc.lastTold)
	for _, r := range pc.pending {
		sb.WriteString(r.kind + ":")
		if r.kind == "getheaders" {
			for _, h := range r.locator {
				sb.WriteString(h.String()[:6] + ",")
			}
		} else {
			sb.WriteString(r.hash.String()[:8])
		}
		sb.WriteString(";")
	}
	sb.WriteString("]")
	return sb.String()
}

// ---------------------------------------------------------------------------------------------
// World

type WorldCfg struct {
	InitialChain   int  // blocks the peer has beyond genesis at start
	StartHeight    int  // height of the configured start block (on the initial chain)
	Untrusted      int  // number of untrusted peers configured
	SafeDelayMS    int  // SafeTxDelay
	RequestMempool bool
	RemoveMissing  bool // RecStore delete-missing behaviour (true = error like MockStorage)
	DialFails      int  // first n dials to the trusted peer are refused
	Subscribe      [][]byte
	Contracts      bool
	MaxPoints      int64
	ExtraTrunk     int // trunk blocks mined beyond InitialChain that are not announced at boot
	Burst          int `json:",omitempty"` // extra independent relevant txs B001.. the burst event relays back to back
	UDialFails     int `json:",omitempty"` // first n dials to untrusted peers are refused
	MaxRetries     int `json:",omitempty"` // config.MaxRetries (0 = 25)
	HeaderBatch    int `json:",omitempty"` // most headers the peer puts into one headers message (0 = 2000, Bitcoin's limit)
}

type World struct {
	cfg     WorldCfg
	S       *vrt.Sched
	Store   *core.RecStore
	NodeCfg config.Config
	Node    *spynode.Node
	nodeGen int
	H       [2]*recorder
	Tree    *tree
	Best    []string // peer's best chain (block names, index = height)
	P       *peerConn // current trusted connection (nil if none)
	PConns  []*peerConn
	U       map[string]*peerConn // untrusted peers by address
	runT    *vrt.Thread
	runDone bool
	runErr  error
	stopT   *vrt.Thread
	stopDone bool

	onCallback func(handler int, e cbEvent)
	viol       []core.Violation
	hist       []string
	fetcher    *fetcher
	Mempool    map[string]*wire.MsgTx // peer mempool by tx name
	TxNames    map[bitcoin.Hash32]string
	Txs        map[string]*wire.MsgTx
	dialsLeftToFail int
	livelock   bool
	stopElapsed int64
	trace []string
	alias      map[string]string
	preferred  *vrt.Thread
	batching   bool
	uDialsLeftToFail int
	staleDup   bool
	manualUntrusted bool // C12: the untrusted peer only does what the explored events make it do
	bursted    map[string]bool // sources that have relayed their burst
	fetchFail  int // the next n GetOutputs calls of the application's output fetcher fail
	enabledAtKey []string
	lateSub    [][]byte // filter the application has not re-subscribed yet after restart:late
	offBestAt  map[string]int64 // block name -> when the peer's best chain dropped it (first time)
	drainTimeouts bool // the last drain only converged (if at all) after letting request time-outs fire
	slack      int64 // timing slack (ns) the oracles grant when a scheduling deviation delayed a thread
	devSite    string // where the deviation of this execution was applied (thread + park site)
	stopRequested  bool
	stopPhase      string
	stopReturned   bool
	stopAt         int64
	stopReturnedAt int64
	plan       *schedPlan
	baseStore  *core.RecStore
	trunk      []string
	shadow     map[int]bitcoin.Hash32
	shadowTip  int
	shadowDone int
	shadowGen  int
	txOrder     []string
	arrivals    map[string][]arrival
	UMempool    map[string]map[string]bool
	lastUnsync  int64
	everReorged bool
	restarts    []int64
	crashes     []int64
	lastReqs    map[string]int
	Abandoned []string // the best chain before the last reorg
	lastDump string
	steps      int64
}

type fetcher struct{ w *World }

func (f *fetcher) GetTx(ctx context.Context, txid bitcoin.Hash32) (*wire.MsgTx, error) {
	return nil, fmt.Errorf("not found")
}

// GetOutputs answers from the tx universe; unknown outpoints get a recognisable stub value.
func (f *fetcher) GetOutputs(ctx context.Context, ops []wire.OutPoint) ([]bitcoin.UTXO, error) {
	if f.w.fetchFail > 0 {
		f.w.fetchFail--
		return nil, fmt.Errorf("output fetcher: backend unavailable")
	}
	out := make([]bitcoin.UTXO, len(ops))
	for i, op := range ops {
		out[i] = f.w.utxo(op)
	}
	return out, nil
}

func (w *World) utxo(op wire.OutPoint) bitcoin.UTXO {
	if n, ok := w.TxNames[op.Hash]; ok {
		tx := w.Txs[n]
		if int(op.Index) < len(tx.TxOut) {
			return bitcoin.UTXO{Hash: op.Hash, Index: op.Index, Value: tx.TxOut[op.Index].Value,
				LockingScript: tx.TxOut[op.Index].LockingScript}
		}
	}
	return bitcoin.UTXO{Hash: op.Hash, Index: op.Index, Value: 7000 + uint64(op.Index),
		LockingScript: []byte{0x51, byte(op.Hash[0]), byte(op.Index)}}
}

func (w *World) fail(prop, clause, class, detail string) {
	w.viol = append(w.viol, core.Violation{Property: prop, Clause: clause, Class: class, Detail: detail,
		Witness: map[string]interface{}{"hist": append([]string(nil), w.hist...)}})
}

func NewWorld(cfg WorldCfg) *World {
	if cfg.MaxPoints == 0 {
		cfg.MaxPoints = 3000000
	}
	w := &World{cfg: cfg, Tree: newTree(), U: map[string]*peerConn{}, Mempool: map[string]*wire.MsgTx{},
		TxNames: map[bitcoin.Hash32]string{}, Txs: map[string]*wire.MsgTx{}}
	w.fetcher = &fetcher{w}
	w.arrivals = map[string][]arrival{}
	w.UMempool = map[string]map[string]bool{}
	w.S = vrt.NewSched()
	vrt.Install(w.S)
	vnet.Reset()
	w.dialsLeftToFail = cfg.DialFails
	w.uDialsLeftToFail = cfg.UDialFails
	vnet.Net.Accept = w.accept
	w.Store = core.NewRecStore(cfg.RemoveMissing)
	w.Best = []string{"g"}
	for i := 0; i < cfg.InitialChain; i++ {
		b := w.Tree.mine(w.Best[len(w.Best)-1], nil, nil)
		b.boot = true
		w.Best = append(w.Best, b.name)
	}
	// extra trunk blocks the peer has mined but not made part of its announced best chain yet
	w.trunk = append([]string(nil), w.Best...)
	for i := 0; i < cfg.ExtraTrunk; i++ {
		b := w.Tree.mine(w.trunk[len(w.trunk)-1], nil, nil)
		w.trunk = append(w.trunk, b.name)
	}
	start := w.Tree.blocks[w.trunk[cfg.StartHeight]].hash
	w.NodeCfg = config.Config{Net: bitcoin.MainNet, NodeAddress: trustedAddr, UserAgent: "/verif/",
		StartHash: start, UntrustedCount: cfg.Untrusted, SafeTxDelay: cfg.SafeDelayMS, ShotgunCount: 0,
		RequestMempool: cfg.RequestMempool, MaxRetries: 25, RetryDelay: 1000}
	if cfg.MaxRetries > 0 {
		w.NodeCfg.MaxRetries = cfg.MaxRetries
	}
	return w
}

// StartNode creates a node on the current store and runs it in a managed thread.
func (w *World) StartNode() {
	w.nodeGen++
	w.Node = spynode.NewNode(w.NodeCfg, w.Store, w.fetcher, w.fetcher)
	for i := range w.H {
		if w.H[i] == nil {
			w.H[i] = &recorder{w: w, id: i}
		}
		w.Node.RegisterHandler(w.H[i])
	}
	ctx := core.Ctx()
	if len(w.cfg.Subscribe) > 0 {
		w.Node.SubscribePushDatas(ctx, w.cfg.Subscribe)
	}
	if w.cfg.Contracts {
		w.Node.SubscribeContracts(ctx)
	}
	w.runDone, w.runErr = false, nil
	node := w.Node
	w.runT = vrt.GoEnv("Node.Run", func() {
		err := node.Run(ctx)
		if node == w.Node {
			w.runErr, w.runDone = err, true
		}
	})
	w.runT.Env = false
}

func (w *World) accept(addr string, server *vnet.VConn) bool {
	if addr == trustedAddr {
		if w.dialsLeftToFail > 0 {
			w.dialsLeftToFail--
			return false
		}
		pc := &peerConn{conn: server, addr: addr, trusted: true, announced: map[string]int64{}, gen: len(w.PConns)}
		w.P = pc
		w.PConns = append(w.PConns, pc)
		return true
	}
	if _, ok := w.U[addr]; ok && w.uDialsLeftToFail > 0 {
		w.uDialsLeftToFail--
		return false
	}
	if pc, ok := w.U[addr]; ok && pc.conn == nil {
		pc.conn = server
		return true
	}
	return false
}

// ---- running ----------------------------------------------------------------------------------

// settle runs system threads (lowest id first, each until it blocks) until none is enabled and
// the peers have nothing more to react to automatically.
func (w *World) settle() {
	if w.batching {
		return
	}
	for {
		for {
			en := w.S.Enabled()
			if len(en) == 0 {
				break
			}
			pick := en[0]
			if w.preferred != nil {
				for _, t := range en {
					if t == w.preferred {
						pick = t
					}
				}
				w.preferred = nil
			}
			w.S.Resume(pick)
			w.steps++
			if w.plan != nil && w.plan.hit != nil {
				w.execPlanStep(pick)
			}
			if w.S.Points > w.cfg.MaxPoints || w.steps > w.cfg.MaxPoints {
				if !w.livelock {
					w.livelock = true
					w.fail("C19", "livelock", "threads keep running without blocking", fmt.Sprintf("more than %d scheduling points without quiescence", w.cfg.MaxPoints))
				}
				return
			}
			if len(w.S.Panics()) > 0 {
				return
			}
		}
		if !w.pump() {
			break
		}
	}
	if w.Node != nil && !w.Node.IsReady(core.Ctx()) {
		w.lastUnsync = w.S.Now
	}
}

// Tick advances the virtual clock by d, running whatever becomes enabled on the way.
func (w *World) Tick(d time.Duration) {
	target := w.S.Now + int64(d)
	w.settle()
	for !w.livelock && len(w.S.Panics()) == 0 {
		nw, ok := w.S.NextWake()
		if !ok || nw > target {
			break
		}
		w.S.AdvanceTo(nw)
		w.settle()
	}
	w.S.AdvanceTo(target)
	w.settle()
}

// pump parses what the node wrote on every connection and performs the automatic reactions
// (version handshake, pong). Returns true if anything was written to the node.
func (w *World) pump() bool {
	wrote := false
	conns := []*peerConn{}
	if w.P != nil {
		conns = append(conns, w.P)
	}
	names := make([]string, 0, len(w.U))
	for a := range w.U {
		names = append(names, a)
	}
	sort.Strings(names)
	for _, a := range names {
		if w.U[a].conn != nil {
			conns = append(conns, w.U[a])
		}
	}
	for _, pc := range conns {
		for {
			buf := pc.conn.Unread()
			if len(buf) < wire.MessageHeaderSize {
				break
			}
			rd := bytes.NewReader(buf)
			n, msg, _, err := wire.ReadMessageN(rd, wire.ProtocolVersion, netMagic)
			if err != nil {
				if int(n) >= len(buf) || strings.Contains(err.Error(), "EOF") {
					// incomplete message (a write is in progress) unless it is an unknown command
					if me, ok := err.(*wire.MessageError); !ok || me.Type != wire.MessageErrorUnknownCommand {
						break
					}
				}
				pc.conn.Consume(len(buf) - rd.Len())
				continue
			}
			pc.conn.Consume(len(buf) - rd.Len())
			if traceOn {
				w.tracef("node->%s %s", pc.addr, describeMsg(w, msg))
			}
			pc.recvLog = append(pc.recvLog, msg)
			pc.recvAt = append(pc.recvAt, w.S.Now)
			if w.onNodeMsg(pc, msg) {
				wrote = true
			}
		}
	}
	return wrote
}

func (w *World) send(pc *peerConn, msg wire.Message) {
	if traceOn {
		w.tracef("%s->node %s", pc.addr, describeMsg(w, msg))
	}
	var buf bytes.Buffer
	if _, err := wire.WriteMessageN(&buf, msg, wire.ProtocolVersion, netMagic); err != nil {
		panic(fmt.Sprintf("harness: cannot encode %s: %v", msg.Command(), err))
	}
	w.sendRaw(pc, buf.Bytes())
}

func (w *World) sendRaw(pc *peerConn, b []byte) {
	if pc.conn == nil || pc.conn.IsClosed() || pc.conn.Peer.IsClosed() {
		return
	}
	pc.conn.Write(b)
	pc.written += int64(len(b))
	pc.sentLog = append(pc.sentLog, b)
	pc.sentAt = append(pc.sentAt, w.S.Now)
}

// onNodeMsg: the peer's reaction to one message from the node. Handshake and pings are answered
// at once; everything else becomes a pending request answered by an explicit event.
func (w *World) onNodeMsg(pc *peerConn, msg wire.Message) bool {
	switch m := msg.(type) {
	case *wire.MsgVersion:
		pc.gotVersion = true
		me := wire.NewNetAddressIPPort(vnet.IPv4(10, 0, 0, 1), 8333, 0)
		you := wire.NewNetAddressIPPort(vnet.IPv4(127, 0, 0, 1), 9333, 0)
		v := wire.NewMsgVersion(me, you, 42, int32(len(w.Best)-1))
		v.UserAgent = "/peer/"
		w.send(pc, v)
		w.send(pc, wire.NewMsgVerAck())
		return true
	case *wire.MsgVerAck:
		pc.gotVerack = true
	case *wire.MsgPing:
		w.send(pc, &wire.MsgPong{Nonce: m.Nonce})
		return true
	case *wire.MsgSendHeaders:
		pc.sendHeaders = true
		if pc.lastTold == "" {
			pc.lastTold = w.Best[len(w.Best)-1]
		}
	case *wire.MsgGetHeaders:
		loc := make([]bitcoin.Hash32, len(m.BlockLocatorHashes))
		for i, h := range m.BlockLocatorHashes {
			loc[i] = *h
		}
		pc.pending = append(pc.pending, peerReq{kind: "getheaders", locator: loc})
	case *wire.MsgGetData:
		for _, iv := range m.InvList {
			switch iv.Type {
			case wire.InvTypeBlock:
				pc.pending = append(pc.pending, peerReq{kind: "block", hash: iv.Hash})
			case wire.InvTypeTx:
				pc.pending = append(pc.pending, peerReq{kind: "tx", hash: iv.Hash})
			}
		}
	case *wire.MsgMemPool:
		pc.pending = append(pc.pending, peerReq{kind: "mempool"})
	case *wire.MsgGetAddr:
		// answered with nothing (address gossip is outside the properties)
	}
	return false
}

// bestIndex returns the height of hash on the peer's best chain, or -1.
func (w *World) bestIndex(h bitcoin.Hash32) int {
	n, ok := w.Tree.byHash[h]
	if !ok {
		return -1
	}
	b := w.Tree.blocks[n]
	if b.height < len(w.Best) && w.Best[b.height] == n {
		return b.height
	}
	return -1
}

// Answer performs the k-th pending request of the connection. Returns false if there is none.
func (w *World) Answer(pc *peerConn, k int) bool {
	if pc == nil || k >= len(pc.pending) {
		return false
	}
	r := pc.pending[k]
	pc.pending = append(append([]peerReq(nil), pc.pending[:k]...), pc.pending[k+1:]...)
	switch r.kind {
	case "getheaders":
		from := 0
		for _, h := range r.locator {
			if i := w.bestIndex(h); i >= 0 {
				from = i
				break
			}
		}
		batch := 2000
		if w.cfg.HeaderBatch > 0 {
			batch = w.cfg.HeaderBatch
		}
		hm := wire.NewMsgHeaders()
		for i := from + 1; i < len(w.Best) && len(hm.Headers) < batch; i++ {
			hd := w.Tree.blocks[w.Best[i]].msg.Header
			hm.AddBlockHeader(&hd)
		}
		w.send(pc, hm)
		pc.hdrMsgs = append(pc.hdrMsgs, hdrMsg{end: pc.written, bestTip: w.Best[len(w.Best)-1], bestH: len(w.Best) - 1, reachedTip: from+len(hm.Headers) >= len(w.Best)-1})
		for i := from + 1; i < len(w.Best) && i <= from+batch; i++ {
			if _, ok := pc.announced[w.Best[i]]; !ok {
				pc.announced[w.Best[i]] = pc.written
			}
		}
		if from+batch >= len(w.Best)-1 {
			pc.lastTold = w.Best[len(w.Best)-1]
		}
	case "block":
		if n, ok := w.Tree.byHash[r.hash]; ok {
			w.send(pc, w.Tree.blocks[n].msg)
		}
	case "tx":
		if n, ok := w.TxNames[r.hash]; ok {
			if tx, ok := w.Mempool[n]; ok {
				w.send(pc, tx)
			}
		}
	case "mempool":
		inv := wire.NewMsgInv()
		names := make([]string, 0, len(w.Mempool))
		for n := range w.Mempool {
			names = append(names, n)
		}
		sort.Strings(names)
		for _, n := range names {
			h := *w.Mempool[n].TxHash()
			inv.AddInvVect(wire.NewInvVect(wire.InvTypeTx, &h))
		}
		if len(inv.InvList) > 0 {
			w.send(pc, inv)
		}
	}
	return true
}

// Announce tells a sendheaders peer about the current best chain (BIP 130 shape): headers from
// the fork point with what the peer last told this node.
func (w *World) Announce(pc *peerConn) {
	if pc == nil || !pc.sendHeaders || pc.conn == nil {
		return
	}
	tip := w.Best[len(w.Best)-1]
	if pc.lastTold == tip {
		return
	}
	// fork point between lastTold's chain and Best
	fork := 0
	if lt, ok := w.Tree.blocks[pc.lastTold]; ok {
		cur := lt
		for cur != nil {
			if cur.height < len(w.Best) && w.Best[cur.height] == cur.name {
				fork = cur.height
				break
			}
			cur = w.Tree.blocks[cur.parent]
		}
	}
	hm := wire.NewMsgHeaders()
	for i := fork + 1; i < len(w.Best); i++ {
		hd := w.Tree.blocks[w.Best[i]].msg.Header
		hm.AddBlockHeader(&hd)
	}
	w.send(pc, hm)
	pc.hdrMsgs = append(pc.hdrMsgs, hdrMsg{end: pc.written, bestTip: tip, bestH: len(w.Best) - 1, reachedTip: true})
	for i := fork + 1; i < len(w.Best); i++ {
		if _, ok := pc.announced[w.Best[i]]; !ok {
			pc.announced[w.Best[i]] = pc.written
		}
	}
	pc.lastTold = tip
}

// Extend mines k blocks on the peer's tip (with the named mempool txs in the first one).
func (w *World) Extend(k int, txNames []string) {
	for i := 0; i < k; i++ {
		var txs []*wire.MsgTx
		var names []string
		if i == 0 {
			for _, n := range txNames {
				if !w.mineable(n, names) {
					continue // a valid chain confirms a tx once and never a double spend
				}
				if tx, ok := w.Txs[n]; ok {
					txs = append(txs, tx)
					names = append(names, n)
					delete(w.Mempool, n)
				}
			}
		}
		b := w.Tree.mine(w.Best[len(w.Best)-1], txs, names)
		w.Best = append(w.Best, b.name)
	}
}

// Reorg replaces the last d blocks of the best chain by n new ones.
func (w *World) Reorg(d, n int) bool {
	if d >= len(w.Best) || d < 1 {
		return false
	}
	w.Abandoned = append([]string(nil), w.Best...)
	w.noteOffBest(w.Best[len(w.Best)-d:])
	w.Best = append([]string(nil), w.Best[:len(w.Best)-d]...)
	for i := 0; i < n; i++ {
		b := w.Tree.mine(w.Best[len(w.Best)-1], nil, nil)
		w.Best = append(w.Best, b.name)
	}
	return true
}

// nodeHandled returns how many bytes of what the peer wrote the node has consumed.
func (pc *peerConn) consumed() int64 {
	if pc.conn == nil {
		return 0
	}
	return pc.written - int64(len(pc.conn.Peer.Unread()))
}

// ---- queries on the node -----------------------------------------------------------------------

func (w *World) nodeChain() (int, func(h int) *bitcoin.Hash32) {
	ctx := core.Ctx()
	tip := w.Node.LastHeight(ctx)
	return tip, func(h int) *bitcoin.Hash32 {
		x, err := w.Node.Hash(ctx, h)
		if err != nil {
			return nil
		}
		return x
	}
}

func (w *World) startHeightOnBest() int {
	if i := w.bestIndex(w.NodeCfg.StartHash); i >= 0 {
		return i
	}
	return w.cfg.StartHeight
}

// Converged reports whether the node's chain equals the peer's best chain from the start block up.
func (w *World) Converged() (bool, string) {
	was := w.Store.Paused
	w.Store.Paused = true // a probe of the harness, not an operation of the node
	defer func() { w.Store.Paused = was }()
	tip, hashAt := w.nodeChain()
	want := len(w.Best) - 1
	if tip != want {
		return false, fmt.Sprintf("node tip height %d, peer best height %d", tip, want)
	}
	for h := w.startHeightOnBest(); h <= want; h++ {
		got := hashAt(h)
		if got == nil || !got.Equal(&w.Tree.blocks[w.Best[h]].hash) {
			return false, fmt.Sprintf("hash at height %d differs from the peer's best chain", h)
		}
	}
	return true, ""
}

// ---- state key ---------------------------------------------------------------------------------

func (w *World) Key(extra string) string {
	now := time.Unix(vrt.BaseUnix, 0).Add(time.Duration(w.S.Now))
	d := core.NewDumper(now)
	d.Skip = func(t reflect.Type, f string) bool {
		switch t.Name() {
		case "VConn":
			return f == "Written" || f == "ID" || f == "OnWrite"
		case "RecStore":
			return f != "Data"
		case "Node":
			return f == "handlers" || f == "messageHandlers" || f == "txFetcher" || f == "outputFetcher" || f == "store"
		}
		return false
	}
	d.Add("node", w.Node)
	var sb strings.Builder
	for _, k := range w.Store.Keys() {
		b := w.Store.Data[k]
		if k == "spynode/txs/unconfirmed" {
			sb.WriteString(k + "=" + canonUnconfirmed(b, now) + ";")
		} else if k == "spynode/peers" {
			continue
		} else {
			sb.WriteString(k + "=" + core.HashStr(string(b)) + ";")
		}
	}
	d.AddRaw("store", sb.String())
	for _, pc := range w.PConns {
		if pc == w.P {
			d.AddRaw("P", pc.key())
		}
	}
	names := make([]string, 0, len(w.U))
	for a := range w.U {
		names = append(names, a)
	}
	sort.Strings(names)
	for _, a := range names {
		d.AddRaw("U", w.U[a].key())
	}
	d.AddRaw("best", strings.Join(w.Best, ",")+"|"+strings.Join(w.Abandoned, ","))
	var ts []string
	for _, t := range w.S.Threads {
		if t.Done {
			continue
		}
		op := "?"
		if t.Pending != nil {
			op = t.Pending.Kind + "@" + t.Pending.Site
			if t.Pending.WakeAt > 0 {
				op += fmt.Sprintf("+%d", t.Pending.WakeAt-w.S.Now)
			}
		}
		ts = append(ts, t.Label+":"+op)
	}
	sort.Strings(ts)
	d.AddRaw("threads", strings.Join(ts, ";"))
	d.AddRaw("timers", fmt.Sprint(w.S.PendingTimers()))
	mp := make([]string, 0, len(w.Mempool))
	for n := range w.Mempool {
		mp = append(mp, n)
	}
	sort.Strings(mp)
	d.AddRaw("peer-mempool", strings.Join(mp, ","))
	d.AddRaw("run", fmt.Sprintf("%v/%v gen%d", w.runDone, w.runErr != nil, w.nodeGen))
	d.AddRaw("extra", extra)
	if traceOn {
		w.lastDump = d.String()
	}
	return core.HashStr(d.String())
}

// canonUnconfirmed renders the unconfirmed file with times relative to now.
func canonUnconfirmed(b []byte, now time.Time) string {
	if len(b) == 0 || (len(b)-1)%43 != 0 {
		return core.HashStr(string(b))
	}
	var recs []string
	for i := 1; i+43 <= len(b); i += 43 {
		ms := int64(0)
		for j := 7; j >= 0; j-- {
			ms = ms<<8 | int64(b[i+32+j])
		}
		rel := time.Unix(0, ms*1e6).Sub(now).Milliseconds()
		recs = append(recs, fmt.Sprintf("%x:%d:%x", b[i:i+8], rel, b[i+40:i+43]))
	}
	sort.Strings(recs)
	return strings.Join(recs, ",")
}

// ---- teardown ----------------------------------------------------------------------------------

func (w *World) Close() {
	w.S.KillAll(false)
	vrt.Install(nil)
}

// PanicViolations converts panics of system threads into violations.
func (w *World) PanicViolations(prop string) {
	for _, t := range w.S.Panics() {
		stk := t.PanicStk
		site := panicSite(stk)
		w.fail(prop, "panic", site, fmt.Sprintf("thread %s panicked: %v\n%s", t.Label, t.PanicVal, trimStack(stk)))
	}
}

func panicSite(stk string) string {
	lines := strings.Split(stk, "\n")
	for i, l := range lines {
		if strings.Contains(l, "panic(") && i+2 < len(lines) {
			for j := i + 2; j < len(lines); j++ {
				if strings.HasPrefix(lines[j], "github.com/tokenized/spynode/") && !strings.Contains(lines[j], "/vrt") {
					f := lines[j]
					if k := strings.Index(f, "("); k > 0 {
						f = f[:k]
					}
					return f
				}
			}
		}
	}
	return "unknown site"
}

func trimStack(s string) string {
	lines := strings.Split(s, "\n")
	if len(lines) > 24 {
		lines = lines[:24]
	}
	return strings.Join(lines, "\n")
}

func goEnv(label string, f func()) *vrt.Thread { return vrt.GoEnv(label, f) }

var traceOn bool

func (w *World) tracef(format string, a ...interface{}) {
	w.trace = append(w.trace, fmt.Sprintf("[%7.3f] ", float64(w.S.Now)/1e9)+fmt.Sprintf(format, a...))
}

func fmtSscan(s string, p *int) { fmt.Sscan(s, p) }

func describeMsg(w *World, msg wire.Message) string {
	nm := func(h bitcoin.Hash32) string {
		if n, ok := w.Tree.byHash[h]; ok {
			return n
		}
		if n, ok := w.TxNames[h]; ok {
			return "tx:" + n
		}
		return h.String()[:8]
	}
	switch m := msg.(type) {
	case *wire.MsgHeaders:
		var s []string
		for _, h := range m.Headers {
			s = append(s, nm(*h.BlockHash()))
		}
		return "headers[" + strings.Join(s, ",") + "]"
	case *wire.MsgGetHeaders:
		var s []string
		for _, h := range m.BlockLocatorHashes {
			s = append(s, nm(*h))
		}
		return "getheaders[" + strings.Join(s, ",") + "]"
	case *wire.MsgGetData:
		var s []string
		for _, iv := range m.InvList {
			s = append(s, nm(iv.Hash))
		}
		return "getdata[" + strings.Join(s, ",") + "]"
	case *wire.MsgInv:
		var s []string
		for _, iv := range m.InvList {
			s = append(s, nm(iv.Hash))
		}
		return "inv[" + strings.Join(s, ",") + "]"
	case *wire.MsgBlock:
		return "block " + nm(*m.Header.BlockHash())
	case *wire.MsgTx:
		return "tx " + nm(*m.TxHash())
	}
	return msg.Command()
}

// Back makes the peer return to the branch it abandoned in the last reorg, extended until it
// is k blocks longer than the current best chain.
func (w *World) Back(k int) bool {
	if len(w.Abandoned) == 0 {
		return false
	}
	cur := w.Best
	target := len(cur) + k
	for i, n := range cur {
		if i >= len(w.Abandoned) || w.Abandoned[i] != n {
			w.noteOffBest([]string{n})
		}
	}
	w.Best = append([]string(nil), w.Abandoned...)
	w.Abandoned = cur
	for len(w.Best) < target {
		b := w.Tree.mine(w.Best[len(w.Best)-1], nil, nil)
		w.Best = append(w.Best, b.name)
	}
	return true
}

// mineable: not yet confirmed on the best chain and not conflicting with a confirmed tx or with a
// tx already chosen for this block.
func (w *World) mineable(n string, chosen []string) bool {
	for _, c := range chosen {
		if c == n || w.conflicts(c, n) {
			return false
		}
	}
	for _, bn := range w.Best {
		for _, t := range w.Tree.blocks[bn].txs {
			if t == n || w.conflicts(t, n) {
				return false
			}
		}
	}
	return true
}

func (w *World) noteOffBest(names []string) {
	if w.offBestAt == nil {
		w.offBestAt = map[string]int64{}
	}
	for _, n := range names {
		if _, ok := w.offBestAt[n]; !ok {
			w.offBestAt[n] = w.S.Now
		}
	}
}
