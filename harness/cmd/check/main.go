//go:build verif

package main

import (
	"fmt"

	_ "github.com/tokenized/spynode/internal/spynode"
	_ "github.com/tokenized/spynode/pkg/client"
)

func main() { fmt.Println("hello") }
