//go:build verif

package main

import (
	"fmt"
	"os"

	"github.com/tokenized/spynode/internal/verif/checks"
	"github.com/tokenized/spynode/internal/verif/core"
)

func main() {
	if len(os.Args) >= 2 && os.Args[1] == "--worker" {
		core.WorkerMain()
		return
	}
	if len(os.Args) < 2 {
		fmt.Fprintln(os.Stderr, "usage: check.bin <property-id> [--replay file]")
		os.Exit(2)
	}
	id := os.Args[1]
	if id == "debug-hist" {
		checks.DebugHist(os.Args[2:])
		return
	}
	if id == "cdebug" {
		idx := 0
		fmt.Sscan(os.Args[3], &idx)
		checks.CDebug(os.Args[2], idx, os.Args[4:])
		return
	}
	if id == "debug" {
		idx := 0
		fmt.Sscan(os.Args[3], &idx)
		checks.DebugHistScenario(os.Args[2], idx, os.Args[4:])
		return
	}
	c, ok := checks.All[id]
	if !ok {
		fmt.Fprintf(os.Stderr, "unknown check %s\n", id)
		os.Exit(2)
	}
	if len(os.Args) >= 4 && os.Args[2] == "--replay" {
		os.Exit(checks.Replay(id, os.Args[3]))
	}
	os.Exit(c())
}
