//go:build verif

package core

import (
	"encoding/json"
	"fmt"
	"time"
)

// Explicit-state breadth-first search over event histories. A state is identified by the
// shortest history that reaches it (live Go objects cannot be cloned: a successor is computed by
// replaying the history on a fresh instance plus one event). The master keeps the visited set of
// canonical state keys; workers expand batches of histories.

type Succ struct {
	Event      string      `json:"e"`
	Key        string      `json:"k"`           // canonical state key after the event ("" = do not extend)
	Violations []Violation `json:"v,omitempty"` // oracle failures observed on this transition
	Outcome    string      `json:"o,omitempty"`
	Terminal   bool        `json:"t,omitempty"` // do not extend (e.g. violation, stopped)
}

type ExpandArg struct {
	Params json.RawMessage `json:"params"`
	Hists  [][]string      `json:"hists"`
}

type ExpandRes struct {
	Succs [][]Succ `json:"succs"` // per history
	Execs int      `json:"execs"`
}

// Expander is implemented per model on the worker side.
type Expander func(params json.RawMessage, hist []string) []Succ

func RegisterExpander(op string, f Expander) {
	RegisterOp(op, func(arg json.RawMessage) (interface{}, error) {
		var a ExpandArg
		if err := json.Unmarshal(arg, &a); err != nil {
			return nil, err
		}
		var res ExpandRes
		for _, h := range a.Hists {
			s := f(a.Params, h)
			res.Execs += len(s)
			res.Succs = append(res.Succs, s)
		}
		return res, nil
	})
}

type BFSStats struct {
	States      int
	Transitions int
	Depth       int // deepest level fully expanded
	Capped      string
	LevelSizes  []int
}

type BFSOpts struct {
	Op        string
	Params    interface{}
	MaxDepth  int
	MaxStates int
	Deadline  time.Time
	Batch     int
	InitKey   string
	OnDied    func(hists [][]string, why string) // a worker died on this batch
}

// BFS explores up to MaxDepth events. Violations and outcomes are added to rep.
func BFS(pool *Pool, rep *Report, o BFSOpts) BFSStats {
	var st BFSStats
	params, _ := json.Marshal(o.Params)
	seen := map[string]bool{o.InitKey: true}
	frontier := [][]string{{}}
	st.States = 1
	if o.Batch <= 0 {
		o.Batch = 16
	}
	for depth := 0; depth < o.MaxDepth && len(frontier) > 0; depth++ {
		if !o.Deadline.IsZero() && time.Now().After(o.Deadline) {
			st.Capped = fmt.Sprintf("deadline reached before expanding level %d (%d states pending)", depth, len(frontier))
			break
		}
		st.LevelSizes = append(st.LevelSizes, len(frontier))
		var tasks []interface{}
		var batches [][][]string
		bs := o.Batch
		if len(frontier) < bs*pool.N*4 {
			bs = len(frontier)/(pool.N*4) + 1
		}
		for i := 0; i < len(frontier); i += bs {
			j := i + bs
			if j > len(frontier) {
				j = len(frontier)
			}
			tasks = append(tasks, ExpandArg{Params: params, Hists: frontier[i:j]})
			batches = append(batches, frontier[i:j])
		}
		type item struct {
			hist []string
			s    Succ
		}
		results := make([][]item, len(tasks))
		pool.Map(o.Op, tasks, func(i int, r TaskResult) {
			if r.Died != "" || r.Err != "" {
				if o.OnDied != nil {
					o.OnDied(batches[i], r.Died+r.Err)
				} else {
					rep.HarnessError("expand batch failed: %s%s (first history %v)", r.Died, r.Err, batches[i][0])
				}
				return
			}
			var res ExpandRes
			if err := json.Unmarshal(r.Res, &res); err != nil {
				rep.HarnessError("bad expand result: %v", err)
				return
			}
			for k, succs := range res.Succs {
				for _, s := range succs {
					results[i] = append(results[i], item{batches[i][k], s})
				}
			}
		})
		var next [][]string
		capped := false
		for _, items := range results { // deterministic order: batch order, then successor order
			for _, it := range items {
				st.Transitions++
				for _, v := range it.s.Violations {
					rep.AddViolation(v)
				}
				if it.s.Outcome != "" {
					rep.Outcome(it.s.Outcome)
				}
				if it.s.Terminal || it.s.Key == "" || seen[it.s.Key] {
					continue
				}
				if o.MaxStates > 0 && st.States >= o.MaxStates {
					capped = true
					continue
				}
				seen[it.s.Key] = true
				st.States++
				h := append(append([]string(nil), it.hist...), it.s.Event)
				next = append(next, h)
				if st.States%97 == 1 {
					rep.AddSample(h)
				}
			}
		}
		st.Depth = depth + 1
		if capped {
			st.Capped = fmt.Sprintf("state cap %d reached at depth %d", o.MaxStates, depth+1)
			break
		}
		frontier = next
	}
	if st.Capped != "" {
		rep.Exhaustive = false
	}
	rep.Coverage["states"] = st.States
	rep.Coverage["transitions"] = st.Transitions
	rep.Coverage["traces_validated_against_impl"] = st.Transitions
	rep.Coverage["depth_completed"] = st.Depth
	rep.Coverage["level_sizes"] = st.LevelSizes
	if st.Capped != "" {
		rep.Coverage["cap_hit"] = st.Capped
	}
	return st
}
