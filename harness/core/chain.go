//go:build verif

package core

import (
	"context"
	"crypto/sha256"
	"encoding/binary"

	"github.com/tokenized/logger"
	"github.com/tokenized/pkg/bitcoin"
	"github.com/tokenized/pkg/wire"
)

// Ctx returns a context whose logger discards everything.
func Ctx() context.Context { return logger.ContextWithNoLogger(context.Background()) }

// GenesisHeader is the main-net genesis header BlockRepository.Load installs on an empty store.
func GenesisHeader() wire.BlockHeader {
	prev, _ := bitcoin.NewHash32FromStr("0000000000000000000000000000000000000000000000000000000000000000")
	merkle, _ := bitcoin.NewHash32FromStr("4a5e1e4baab89f3a32518a88c31bc87f618f76673e2cc77ab2127b7afdeda33b")
	return wire.BlockHeader{Version: 1, PrevBlock: *prev, MerkleRoot: *merkle,
		Timestamp: 1231006505, Bits: 0x1d00ffff, Nonce: 2083236893}
}

// MakeHeader builds a header on top of prev; salt distinguishes branches.
func MakeHeader(prev bitcoin.Hash32, height int, salt uint32, merkle bitcoin.Hash32) wire.BlockHeader {
	return wire.BlockHeader{Version: 1, PrevBlock: prev, MerkleRoot: merkle,
		Timestamp: uint32(1231006505 + 600*height), Bits: 0x1d00ffff, Nonce: salt}
}

// DoubleSha is an independent double-SHA256 (not the repository's helper).
func DoubleSha(b []byte) [32]byte {
	h := sha256.Sum256(b)
	return sha256.Sum256(h[:])
}

// IndependentMerkleRoot computes the Bitcoin merkle root of txids (harness implementation).
func IndependentMerkleRoot(txids []bitcoin.Hash32) bitcoin.Hash32 {
	if len(txids) == 0 {
		return bitcoin.Hash32{}
	}
	level := make([][32]byte, len(txids))
	for i, t := range txids {
		level[i] = t
	}
	for len(level) > 1 {
		if len(level)%2 == 1 {
			level = append(level, level[len(level)-1])
		}
		next := make([][32]byte, len(level)/2)
		for i := range next {
			var buf [64]byte
			copy(buf[:32], level[2*i][:])
			copy(buf[32:], level[2*i+1][:])
			next[i] = DoubleSha(buf[:])
		}
		level = next
	}
	return level[0]
}

// VerifyMerklePath recomputes the root from a leaf, its index and its sibling path.
func VerifyMerklePath(txid bitcoin.Hash32, index uint64, path []bitcoin.Hash32) bitcoin.Hash32 {
	cur := [32]byte(txid)
	for _, sib := range path {
		var buf [64]byte
		if index%2 == 0 {
			copy(buf[:32], cur[:])
			copy(buf[32:], sib[:])
		} else {
			copy(buf[:32], sib[:])
			copy(buf[32:], cur[:])
		}
		cur = DoubleSha(buf[:])
		index /= 2
	}
	return cur
}

// Script helpers -------------------------------------------------------------------------------

func PushScript(data []byte) []byte {
	n := len(data)
	switch {
	case n <= 75:
		return append([]byte{byte(n)}, data...)
	case n <= 255:
		return append([]byte{0x4c, byte(n)}, data...)
	default:
		b := []byte{0x4d, 0, 0}
		binary.LittleEndian.PutUint16(b[1:], uint16(n))
		return append(b, data...)
	}
}

// P2PKHScript: OP_DUP OP_HASH160 <20> OP_EQUALVERIFY OP_CHECKSIG
func P2PKHScript(h [20]byte) []byte {
	s := []byte{0x76, 0xa9, 0x14}
	s = append(s, h[:]...)
	return append(s, 0x88, 0xac)
}

func Hash20Of(tag string) [20]byte {
	h := sha256.Sum256([]byte("h20:" + tag))
	var r [20]byte
	copy(r[:], h[:20])
	return r
}

// MakeTx builds a transaction spending the given outpoints with one output per script.
func MakeTx(ins []wire.OutPoint, unlock [][]byte, outs [][]byte, salt uint32) *wire.MsgTx {
	tx := wire.NewMsgTx(1)
	for i, op := range ins {
		var us []byte
		if i < len(unlock) {
			us = unlock[i]
		}
		o := op
		tx.AddTxIn(wire.NewTxIn(&o, us))
	}
	for i, s := range outs {
		tx.AddTxOut(wire.NewTxOut(uint64(1000+i), s))
	}
	tx.LockTime = salt
	return tx
}

// CoinbaseScript, when set, is the locking script the coinbase of the next blocks pays to (a
// harness knob for blocks whose first transaction is relevant to a subscription).
var CoinbaseScript []byte

func CoinbaseTx(height int, salt uint32) *wire.MsgTx {
	tx := wire.NewMsgTx(1)
	op := wire.OutPoint{Index: wire.MaxPrevOutIndex}
	script := []byte{4, byte(height), byte(height >> 8), byte(salt), byte(salt >> 8)}
	tx.AddTxIn(wire.NewTxIn(&op, script))
	ls := []byte{0x51}
	if CoinbaseScript != nil {
		ls = CoinbaseScript
	}
	tx.AddTxOut(wire.NewTxOut(5000000000, ls))
	return tx
}

// MakeBlock builds a block with a correct merkle root on top of prev.
func MakeBlock(prev bitcoin.Hash32, height int, salt uint32, txs []*wire.MsgTx) *wire.MsgBlock {
	all := append([]*wire.MsgTx{CoinbaseTx(height, salt)}, txs...)
	ids := make([]bitcoin.Hash32, len(all))
	for i, t := range all {
		ids[i] = *t.TxHash()
	}
	h := MakeHeader(prev, height, salt, IndependentMerkleRoot(ids))
	b := &wire.MsgBlock{Header: h}
	for _, t := range all {
		b.AddTransaction(t)
	}
	return b
}
