//go:build verif

package core

import (
	"encoding/hex"
	"fmt"
	"reflect"
	"sort"
	"strings"
	"time"
	"unsafe"
)

// Dumper renders an object graph (including unexported fields) canonically: maps sorted,
// pointers numbered in visit order, time.Time relative to Now, mutex internals / loggers /
// functions dropped. See DESIGN.md §3.4.
type Dumper struct {
	sb    strings.Builder
	seen  map[uintptr]int
	Now   time.Time
	Skip  func(t reflect.Type, field string) bool
	Depth int
	Caps  bool // also record the spare capacity of slices (hidden state that matters for aliasing between slices)
}

// KeyDumper lets harness-side objects (recorders, actors) provide their own compact key.
type KeyDumper interface{ DumpKey() string }

var (
	timeType      = reflect.TypeOf(time.Time{})
	keyDumperType = reflect.TypeOf((*KeyDumper)(nil)).Elem()
)

func NewDumper(now time.Time) *Dumper {
	return &Dumper{seen: map[uintptr]int{}, Now: now}
}

func (d *Dumper) String() string { return d.sb.String() }

func (d *Dumper) Add(label string, v interface{}) {
	d.sb.WriteString(label)
	d.sb.WriteString("=")
	rv := reflect.ValueOf(v)
	d.dump(rv, 0)
	d.sb.WriteString("\n")
}

func (d *Dumper) AddRaw(label, s string) {
	d.sb.WriteString(label)
	d.sb.WriteString("=")
	d.sb.WriteString(s)
	d.sb.WriteString("\n")
}

func skipType(t reflect.Type) bool {
	p := t.PkgPath()
	switch {
	case p == "sync" || (p == "sync/atomic" && t.Name() != "Value"):
		return true
	case strings.HasSuffix(p, "tokenized/logger"):
		return true
	case p == "context":
		return true
	}
	return false
}

// access returns a value that can be read even if it came from an unexported field.
func access(v reflect.Value) reflect.Value {
	if v.CanInterface() {
		return v
	}
	if v.CanAddr() {
		return reflect.NewAt(v.Type(), unsafe.Pointer(v.UnsafeAddr())).Elem()
	}
	// copy into addressable storage (only reachable for non-addressable RO values)
	nv := reflect.New(v.Type()).Elem()
	return forceSet(nv, v)
}

func forceSet(dst, src reflect.Value) reflect.Value {
	// src is RO and not addressable: fall back to kind-wise reconstruction
	switch src.Kind() {
	case reflect.Bool:
		dst.SetBool(src.Bool())
	case reflect.Int, reflect.Int8, reflect.Int16, reflect.Int32, reflect.Int64:
		dst.SetInt(src.Int())
	case reflect.Uint, reflect.Uint8, reflect.Uint16, reflect.Uint32, reflect.Uint64, reflect.Uintptr:
		dst.SetUint(src.Uint())
	case reflect.String:
		dst.SetString(src.String())
	case reflect.Float32, reflect.Float64:
		dst.SetFloat(src.Float())
	default:
		return src
	}
	return dst
}

func (d *Dumper) dump(v reflect.Value, depth int) {
	if !v.IsValid() {
		d.sb.WriteString("nil")
		return
	}
	if depth > 40 {
		d.sb.WriteString("<deep>")
		return
	}
	t := v.Type()
	if skipType(t) {
		if t.PkgPath() == "sync" {
			d.sb.WriteString("-")
		} else {
			d.sb.WriteString("-")
		}
		return
	}
	v = access(v)
	if t.Implements(keyDumperType) && v.CanInterface() && !(v.Kind() == reflect.Ptr && v.IsNil()) {
		d.sb.WriteString(v.Interface().(KeyDumper).DumpKey())
		return
	}
	if v.CanAddr() && reflect.PtrTo(t).Implements(keyDumperType) {
		pv := v.Addr()
		if pv.CanInterface() {
			d.sb.WriteString(pv.Interface().(KeyDumper).DumpKey())
			return
		}
	}
	if t == timeType {
		tm := v.Interface().(time.Time)
		if tm.IsZero() {
			d.sb.WriteString("t0")
		} else {
			fmt.Fprintf(&d.sb, "t%+d", tm.Sub(d.Now).Nanoseconds())
		}
		return
	}
	switch v.Kind() {
	case reflect.Bool:
		if v.Bool() {
			d.sb.WriteString("T")
		} else {
			d.sb.WriteString("F")
		}
	case reflect.Int, reflect.Int8, reflect.Int16, reflect.Int32, reflect.Int64:
		fmt.Fprintf(&d.sb, "%d", v.Int())
	case reflect.Uint, reflect.Uint8, reflect.Uint16, reflect.Uint32, reflect.Uint64, reflect.Uintptr:
		fmt.Fprintf(&d.sb, "%d", v.Uint())
	case reflect.Float32, reflect.Float64:
		fmt.Fprintf(&d.sb, "%g", v.Float())
	case reflect.String:
		fmt.Fprintf(&d.sb, "%q", v.String())
	case reflect.Ptr:
		if v.IsNil() {
			d.sb.WriteString("nil")
			return
		}
		p := v.Pointer()
		if id, ok := d.seen[p]; ok {
			fmt.Fprintf(&d.sb, "&#%d", id)
			return
		}
		id := len(d.seen)
		d.seen[p] = id
		fmt.Fprintf(&d.sb, "&%d:", id)
		d.dump(v.Elem(), depth+1)
	case reflect.Interface:
		if v.IsNil() {
			d.sb.WriteString("nil")
			return
		}
		e := v.Elem()
		d.sb.WriteString("(" + e.Type().String() + ")")
		if !e.CanAddr() && e.Kind() == reflect.Struct {
			ne := reflect.New(e.Type()).Elem()
			if e.CanInterface() {
				ne.Set(e)
				e = ne
			}
		}
		d.dump(e, depth+1)
	case reflect.Slice:
		if v.IsNil() {
			d.sb.WriteString("[]")
			return
		}
		fallthrough
	case reflect.Array:
		if t.Elem().Kind() == reflect.Uint8 {
			n := v.Len()
			b := make([]byte, n)
			for i := 0; i < n; i++ {
				b[i] = byte(v.Index(i).Uint())
			}
			d.sb.WriteString("x" + hex.EncodeToString(b))
			return
		}
		d.sb.WriteString("[")
		for i := 0; i < v.Len(); i++ {
			if i > 0 {
				d.sb.WriteString(",")
			}
			d.dump(v.Index(i), depth+1)
		}
		d.sb.WriteString("]")
		if d.Caps && v.Kind() == reflect.Slice && v.Cap() > v.Len() {
			fmt.Fprintf(&d.sb, "^%d", v.Cap()-v.Len())
		}
	case reflect.Map:
		if v.IsNil() {
			d.sb.WriteString("{}")
			return
		}
		type kv struct{ k, v string }
		var items []kv
		it := v.MapRange()
		for it.Next() {
			kd := &Dumper{seen: d.seen, Now: d.Now, Caps: d.Caps, Skip: d.Skip}
			kd.dump(addressable(it.Key()), depth+1)
			vd := &Dumper{seen: d.seen, Now: d.Now, Caps: d.Caps, Skip: d.Skip}
			vd.dump(addressable(it.Value()), depth+1)
			items = append(items, kv{kd.sb.String(), vd.sb.String()})
		}
		sort.Slice(items, func(i, j int) bool { return items[i].k < items[j].k })
		d.sb.WriteString("{")
		for i, it := range items {
			if i > 0 {
				d.sb.WriteString(",")
			}
			d.sb.WriteString(it.k + ":" + it.v)
		}
		d.sb.WriteString("}")
	case reflect.Struct:
		d.sb.WriteString("{")
		first := true
		for i := 0; i < v.NumField(); i++ {
			f := t.Field(i)
			if skipType(f.Type) || f.Type.Kind() == reflect.Func {
				continue
			}
			if d.Skip != nil && d.Skip(t, f.Name) {
				continue
			}
			if !first {
				d.sb.WriteString(" ")
			}
			first = false
			d.sb.WriteString(f.Name + "=")
			d.dump(v.Field(i), depth+1)
		}
		d.sb.WriteString("}")
	case reflect.Func:
		d.sb.WriteString("func")
	case reflect.Chan, reflect.UnsafePointer:
		d.sb.WriteString("-")
	default:
		fmt.Fprintf(&d.sb, "?%s", v.Kind())
	}
}

func addressable(v reflect.Value) reflect.Value {
	if v.CanAddr() {
		return v
	}
	nv := reflect.New(v.Type()).Elem()
	if v.CanInterface() {
		nv.Set(v)
		return nv
	}
	return v
}

// Field reads a (possibly unexported) field path from a struct pointer; ok=false if absent.
func Field(obj interface{}, path ...string) (reflect.Value, bool) {
	v := reflect.ValueOf(obj)
	for _, name := range path {
		for v.Kind() == reflect.Ptr || v.Kind() == reflect.Interface {
			if v.IsNil() {
				return reflect.Value{}, false
			}
			v = v.Elem()
		}
		if v.Kind() != reflect.Struct {
			return reflect.Value{}, false
		}
		f := v.FieldByName(name)
		if !f.IsValid() {
			return reflect.Value{}, false
		}
		v = access(f)
	}
	return v, true
}
