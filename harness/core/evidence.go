//go:build verif

package core

import (
	"crypto/sha256"
	"encoding/hex"
	"encoding/json"
	"fmt"
	"os"
	"path/filepath"
	"sort"
	"strconv"
	"strings"
	"time"
)

// VerifDir is where evidence, replays and known_findings.json live (the directory of ./check).
var VerifDir = func() string {
	if d := os.Getenv("VERIF_DIR"); d != "" {
		return d
	}
	return "/verif"
}()

// Violation is one oracle failure with the witness that reproduces it.
type Violation struct {
	Property string      `json:"property"`
	Clause   string      `json:"clause"`  // which oracle clause failed
	Class    string      `json:"class"`   // witness class (narrow: used to match known findings)
	Detail   string      `json:"detail"`  // human readable
	Witness  interface{} `json:"witness"` // replayable input / history / schedule
}

func (v Violation) Key() string { return v.Clause + " | " + v.Class }

type KnownFinding struct {
	Property string `json:"property"`
	Key      string `json:"key"`
	What     string `json:"what"`
	Status   string `json:"status"` // open | fixed
	Commit   string `json:"commit,omitempty"`
}

func LoadKnown() []KnownFinding {
	b, err := os.ReadFile(filepath.Join(VerifDir, "known_findings.json"))
	if err != nil {
		return nil
	}
	var f struct {
		Findings []KnownFinding `json:"findings"`
	}
	if err := json.Unmarshal(b, &f); err != nil {
		fmt.Fprintf(os.Stderr, "known_findings.json: %v\n", err)
		return nil
	}
	return f.Findings
}

// Report collects what one check run covered and found, writes the evidence file and prints the
// interface lines.
type Report struct {
	Property string
	Level    string
	Tier     string
	Seed     int64
	Start    time.Time

	Coverage    map[string]interface{}
	Assumptions []string
	Samples     []interface{}
	Violations  []Violation
	seenViol    map[string]bool
	Outcomes    map[string]bool
	HarnessErrs []string
	Exhaustive  bool
}

func NewReport(prop, level string) *Report {
	tier := os.Getenv("VERIF_TIER")
	if tier != "thorough" {
		tier = "quick"
	}
	seed, _ := strconv.ParseInt(os.Getenv("VERIF_SEED"), 10, 64)
	return &Report{Property: prop, Level: level, Tier: tier, Seed: seed, Start: time.Now(),
		Coverage: map[string]interface{}{}, seenViol: map[string]bool{}, Outcomes: map[string]bool{},
		Exhaustive: true}
}

func (r *Report) Thorough() bool { return r.Tier == "thorough" }

func (r *Report) AddSample(s interface{}) {
	if len(r.Samples) < 6 {
		r.Samples = append(r.Samples, s)
	}
}

func (r *Report) AddViolation(v Violation) {
	if v.Property == "" {
		v.Property = r.Property
	}
	k := v.Key()
	if r.seenViol[k] {
		return
	}
	r.seenViol[k] = true
	r.Violations = append(r.Violations, v)
}

func (r *Report) HarnessError(format string, a ...interface{}) {
	r.HarnessErrs = append(r.HarnessErrs, fmt.Sprintf(format, a...))
}

func (r *Report) Outcome(s string) { r.Outcomes[s] = true }

func HashStr(s string) string {
	h := sha256.Sum256([]byte(s))
	return hex.EncodeToString(h[:8])
}

// Finish writes evidence, prints KNOWN-FINDING / VIOLATION lines and returns the exit code.
func (r *Report) Finish() int {
	known := LoadKnown()
	open := map[string]KnownFinding{}
	for _, k := range known {
		if k.Property == r.Property && k.Status == "open" {
			open[k.Key] = k
		}
	}
	sort.Slice(r.Violations, func(i, j int) bool { return r.Violations[i].Key() < r.Violations[j].Key() })
	exit := 0
	nNew := 0
	var knownHit []string
	os.MkdirAll(filepath.Join(VerifDir, "replays"), 0o755)
	if old, err := filepath.Glob(filepath.Join(VerifDir, "replays", r.Property+"-*.json")); err == nil {
		for _, f := range old {
			os.Remove(f)
		}
	}
	for _, v := range r.Violations {
		if k, ok := open[v.Key()]; ok {
			fmt.Printf("KNOWN-FINDING: property=%s %s [%s]\n", r.Property, k.What, v.Key())
			knownHit = append(knownHit, v.Key())
			continue
		}
		nNew++
		path := filepath.Join(VerifDir, "replays", fmt.Sprintf("%s-%s.json", r.Property, HashStr(v.Key())))
		b, _ := json.MarshalIndent(v, "", " ")
		os.WriteFile(path, b, 0o644)
		fmt.Printf("VIOLATION property=%s replay=%s\n", r.Property, path)
		fmt.Printf("  clause: %s\n  class: %s\n  detail: %s\n", v.Clause, v.Class, strings.ReplaceAll(v.Detail, "\n", "\n    "))
		exit = 1
	}
	cov := r.Coverage
	cov["samples"] = r.Samples
	if len(r.Samples) == 0 {
		cov["samples"] = []interface{}{"(no sample recorded)"}
	}
	cov["exhaustive"] = r.Exhaustive && len(r.HarnessErrs) == 0
	cov["distinct_outcomes"] = len(r.Outcomes)
	cov["known_findings_reproduced"] = knownHit
	if len(r.HarnessErrs) > 0 {
		cov["harness_errors"] = r.HarnessErrs
	}
	ev := map[string]interface{}{
		"property_id": r.Property,
		"tier":        r.Tier,
		"seed":        r.Seed,
		"level":       r.Level,
		"coverage":    cov,
		"assumptions": r.Assumptions,
		"wall_s":      time.Since(r.Start).Seconds(),
		"violations":  nNew,
	}
	b, _ := json.MarshalIndent(ev, "", " ")
	os.MkdirAll(filepath.Join(VerifDir, "evidence"), 0o755)
	if err := os.WriteFile(filepath.Join(VerifDir, "evidence", r.Property+".json"), b, 0o644); err != nil {
		fmt.Fprintf(os.Stderr, "cannot write evidence: %v\n", err)
		return 2
	}
	if len(r.HarnessErrs) > 0 && exit == 0 {
		for _, e := range r.HarnessErrs {
			fmt.Fprintf(os.Stderr, "HARNESS-ERROR: %s\n", e)
		}
		return 2
	}
	fmt.Printf("%s %s: %s violations=%d known=%d wall=%.1fs\n", r.Property, r.Tier, summarize(cov), nNew, len(knownHit), time.Since(r.Start).Seconds())
	return exit
}

func summarize(cov map[string]interface{}) string {
	var parts []string
	for _, k := range []string{"evaluations", "distinct_nontrivial", "states", "transitions", "executions", "exhaustive", "distinct_outcomes"} {
		if v, ok := cov[k]; ok {
			parts = append(parts, fmt.Sprintf("%s=%v", k, v))
		}
	}
	return strings.Join(parts, " ")
}
