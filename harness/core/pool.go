//go:build verif

package core

import (
	"strings"
	"bufio"
	"encoding/json"
	"fmt"
	"os"
	"os/exec"
	"runtime"
	"strconv"
	"sync"
	"time"
)

// Worker pool: the check binary re-executes itself with --worker; the master sends one JSON task
// per line and reads one JSON result per line. Every execution of the code under test happens in
// a worker (one at a time per process: the scheduler and the passthrough clock are process
// globals), so a panic, a hang or an allocation bomb takes down a worker, not the check.

type WorkerFunc func(arg json.RawMessage) (interface{}, error)

var workerOps = map[string]WorkerFunc{}

func RegisterOp(name string, f WorkerFunc) { workerOps[name] = f }

type taskMsg struct {
	Op  string          `json:"op"`
	Arg json.RawMessage `json:"arg"`
}

type resultMsg struct {
	Res      json.RawMessage `json:"res,omitempty"`
	Err      string          `json:"err,omitempty"`
	Poisoned bool            `json:"poisoned,omitempty"` // the worker should not be used again (e.g. a goroutine of it is spinning)
}

// WorkerPoisoned is set by a task that leaves the worker process in a state it should not be reused in
// (a decoder that never returns keeps spinning in its goroutine): the master replaces the worker.
var WorkerPoisoned bool

// WorkerMain serves tasks from stdin until EOF.
func WorkerMain() {
	in := bufio.NewReaderSize(os.Stdin, 1<<20)
	out := bufio.NewWriter(os.Stdout)
	for {
		line, err := in.ReadBytes('\n')
		if len(line) == 0 && err != nil {
			return
		}
		var t taskMsg
		var r resultMsg
		if e := json.Unmarshal(line, &t); e != nil {
			r.Err = "bad task: " + e.Error()
		} else if f, ok := workerOps[t.Op]; !ok {
			r.Err = "unknown op " + t.Op
		} else {
			res, e := f(t.Arg)
			if e != nil {
				r.Err = e.Error()
			} else {
				b, e := json.Marshal(res)
				if e != nil {
					r.Err = "marshal: " + e.Error()
				} else {
					r.Res = b
				}
			}
		}
		r.Poisoned = WorkerPoisoned
		b, _ := json.Marshal(r)
		out.Write(b)
		out.WriteByte('\n')
		out.Flush()
		if err != nil || WorkerPoisoned {
			return
		}
	}
}

type worker struct {
	cmd *exec.Cmd
	in  *bufio.Writer
	out *bufio.Reader
	n   int
	err *tailBuf
}

// tailBuf keeps the last bytes a worker wrote to stderr (fatal errors of the Go runtime end up
// there and say where an allocation bomb or deadlock happened).
type tailBuf struct {
	mu  sync.Mutex
	buf []byte
}

func (t *tailBuf) Write(p []byte) (int, error) {
	t.mu.Lock()
	defer t.mu.Unlock()
	t.buf = append(t.buf, p...)
	if len(t.buf) > 1<<16 {
		t.buf = t.buf[len(t.buf)-(1<<16):]
	}
	return len(p), nil
}

func (t *tailBuf) String() string {
	t.mu.Lock()
	defer t.mu.Unlock()
	return string(t.buf)
}

type Pool struct {
	N           int
	TaskTimeout time.Duration
	MemKB       int // ulimit -v for workers (0 = none)
	Recycle     int // restart a worker after this many tasks
}

func NumWorkers() int {
	if s := os.Getenv("VERIF_WORKERS"); s != "" {
		if n, err := strconv.Atoi(s); err == nil && n > 0 {
			return n
		}
	}
	n := runtime.NumCPU()
	if n > 16 {
		n = 16
	}
	if n < 1 {
		n = 1
	}
	return n
}

func NewPool() *Pool {
	// The task time-out only guards against a worker that hangs; it is wall-clock, so it must be far above
	// what a task needs on a loaded machine. Thorough tasks are up to two orders of magnitude bigger.
	tt := 10 * time.Minute
	if os.Getenv("VERIF_TIER") == "thorough" {
		tt = 45 * time.Minute
	}
	return &Pool{N: NumWorkers(), TaskTimeout: tt, MemKB: 6 << 20, Recycle: 400}
}

func (p *Pool) start() (*worker, error) {
	exe, err := os.Executable()
	if err != nil {
		return nil, err
	}
	var cmd *exec.Cmd
	if p.MemKB > 0 {
		cmd = exec.Command("/bin/bash", "-c", fmt.Sprintf("ulimit -v %d; exec %q --worker", p.MemKB, exe))
	} else {
		cmd = exec.Command(exe, "--worker")
	}
	cmd.Env = append(os.Environ(), "GOMAXPROCS=2", "VERIF_IS_WORKER=1")
	tail := &tailBuf{}
	cmd.Stderr = tail
	stdin, err := cmd.StdinPipe()
	if err != nil {
		return nil, err
	}
	stdout, err := cmd.StdoutPipe()
	if err != nil {
		return nil, err
	}
	if err := cmd.Start(); err != nil {
		return nil, err
	}
	return &worker{cmd: cmd, in: bufio.NewWriter(stdin), out: bufio.NewReaderSize(stdout, 1<<20), err: tail}, nil
}

func (w *worker) stop() {
	if w == nil || w.cmd == nil || w.cmd.Process == nil {
		return
	}
	w.cmd.Process.Kill()
	w.cmd.Wait()
}

// FatalSite extracts the runtime's fatal message and the first non-runtime function from a dead
// worker's stderr.
func FatalSite(stderr string) (msg, fn string) {
	lines := strings.Split(stderr, "\n")
	for i, l := range lines {
		if strings.HasPrefix(l, "fatal error:") || strings.HasPrefix(l, "panic:") {
			msg = l
			for _, f := range lines[i+1:] {
				if strings.HasPrefix(f, "github.com/") || strings.HasPrefix(f, "golang.org/") {
					if k := strings.LastIndex(f, "("); k > 0 {
						f = f[:k]
					}
					if k := strings.LastIndex(f, "/"); k >= 0 {
						f = f[k+1:]
					}
					fn = f
					return
				}
			}
			return
		}
	}
	return
}

type TaskResult struct {
	Res  json.RawMessage
	Err  string // error reported by the op
	Died string // worker died / timed out (the task is the witness)
	Stderr string // tail of the dead worker's stderr
}

// Map runs op on every arg in parallel and calls onResult (serialised) for each.
func (p *Pool) Map(op string, args []interface{}, onResult func(i int, r TaskResult)) {
	type job struct {
		i   int
		arg json.RawMessage
	}
	jobs := make(chan job)
	var mu sync.Mutex
	var wg sync.WaitGroup
	n := p.N
	if n > len(args) {
		n = len(args)
	}
	for k := 0; k < n; k++ {
		wg.Add(1)
		go func() {
			defer wg.Done()
			var w *worker
			defer func() { w.stop() }()
			for j := range jobs {
				if w == nil || (p.Recycle > 0 && w.n >= p.Recycle) {
					w.stop()
					var err error
					w, err = p.start()
					if err != nil {
						mu.Lock()
						onResult(j.i, TaskResult{Died: "cannot start worker: " + err.Error()})
						mu.Unlock()
						w = nil
						continue
					}
				}
				w.n++
				msg, _ := json.Marshal(taskMsg{Op: op, Arg: j.arg})
				w.in.Write(msg)
				w.in.WriteByte('\n')
				w.in.Flush()
				type rd struct {
					line []byte
					err  error
				}
				ch := make(chan rd, 1)
				go func(w *worker) {
					line, err := w.out.ReadBytes('\n')
					ch <- rd{line, err}
				}(w)
				var tr TaskResult
				select {
				case r := <-ch:
					if r.err != nil {
						w.cmd.Wait()
						tr.Died = "worker exited: " + r.err.Error()
						tr.Stderr = w.err.String()
						w.stop()
						w = nil
					} else {
						var rm resultMsg
						if e := json.Unmarshal(r.line, &rm); e != nil {
							tr.Died = "bad worker output: " + e.Error()
							w.stop()
							w = nil
						} else {
							tr.Res, tr.Err = rm.Res, rm.Err
							if rm.Poisoned {
								w.stop()
								w = nil
							}
						}
					}
				case <-time.After(p.TaskTimeout):
					tr.Died = fmt.Sprintf("worker timed out after %s", p.TaskTimeout)
					tr.Stderr = w.err.String()
					w.stop()
					w = nil
				}
				mu.Lock()
				onResult(j.i, tr)
				mu.Unlock()
			}
		}()
	}
	for i, a := range args {
		b, _ := json.Marshal(a)
		jobs <- job{i, b}
	}
	close(jobs)
	wg.Wait()
}
