//go:build verif

package core

import (
	"context"
	"errors"
	"io"
	"sort"
	"strings"

	"github.com/tokenized/pkg/storage"
)

// RecStore is an in-memory storage.Storage that records every mutation (for crash images),
// can fail the j-th operation, and can behave like either real back end on deleting a missing
// key (MockStorage: ErrNotFound, FilesystemStorage: success).
type RecStore struct {
	Data             map[string][]byte
	Log              []Mutation
	Ops              int  // operations performed so far (reads + writes + removes + lists)
	FailAt           int  // 1-based index of the operation that fails (0 = none)
	FailSticky       bool // keep failing after FailAt
	RemoveMissingErr bool // true: MockStorage behaviour
	Record           bool
	OpLog            []string // kinds of operations, for fault reports
	Failed           []string
	Paused           bool // operations issued by the harness's own probes: neither counted nor failed
}

type Mutation struct {
	Kind string // "write" | "remove"
	Key  string
	Data []byte
}

var ErrInjected = errors.New("injected storage fault")

func NewRecStore(removeMissingErr bool) *RecStore {
	return &RecStore{Data: map[string][]byte{}, RemoveMissingErr: removeMissingErr, Record: true}
}

func (s *RecStore) Clone() *RecStore {
	c := NewRecStore(s.RemoveMissingErr)
	for k, v := range s.Data {
		c.Data[k] = append([]byte(nil), v...)
	}
	return c
}

// ImageAt returns the storage contents after the first n mutations of the log applied to base.
func ImageAt(base *RecStore, log []Mutation, n int) *RecStore {
	c := base.Clone()
	for _, m := range log[:n] {
		switch m.Kind {
		case "write":
			c.Data[m.Key] = append([]byte(nil), m.Data...)
		case "remove":
			delete(c.Data, m.Key)
		}
	}
	return c
}

func (s *RecStore) op(kind, key string) error {
	if s.Paused {
		return nil
	}
	s.Ops++
	if s.Record {
		s.OpLog = append(s.OpLog, kind+" "+key)
	}
	if s.FailAt > 0 && (s.Ops == s.FailAt || (s.FailSticky && s.Ops > s.FailAt)) {
		s.Failed = append(s.Failed, kind+" "+key)
		return ErrInjected
	}
	return nil
}

func (s *RecStore) Read(ctx context.Context, key string) ([]byte, error) {
	if err := s.op("read", key); err != nil {
		return nil, err
	}
	b, ok := s.Data[key]
	if !ok {
		return nil, storage.ErrNotFound
	}
	return append([]byte(nil), b...), nil
}

func (s *RecStore) Write(ctx context.Context, key string, body []byte, o *storage.Options) error {
	if err := s.op("write", key); err != nil {
		return err
	}
	cp := append([]byte(nil), body...)
	s.Data[key] = cp
	if s.Record {
		s.Log = append(s.Log, Mutation{"write", key, cp})
	}
	return nil
}

func (s *RecStore) Remove(ctx context.Context, key string) error {
	if err := s.op("remove", key); err != nil {
		return err
	}
	if _, ok := s.Data[key]; !ok {
		// FilesystemStorage uses os.RemoveAll: removing a directory prefix also succeeds.
		if s.RemoveMissingErr {
			return storage.ErrNotFound
		}
		return nil
	}
	delete(s.Data, key)
	if s.Record {
		s.Log = append(s.Log, Mutation{"remove", key, nil})
	}
	return nil
}

func (s *RecStore) Keys() []string {
	keys := make([]string, 0, len(s.Data))
	for k := range s.Data {
		keys = append(keys, k)
	}
	sort.Strings(keys)
	return keys
}

func (s *RecStore) List(ctx context.Context, path string) ([]string, error) {
	if err := s.op("list", path); err != nil {
		return nil, err
	}
	var out []string
	for _, k := range s.Keys() {
		if strings.HasPrefix(k, path) {
			out = append(out, k)
		}
	}
	return out, nil
}

func (s *RecStore) Search(ctx context.Context, q map[string]string) ([][]byte, error) {
	if err := s.op("search", q["path"]); err != nil {
		return nil, err
	}
	var out [][]byte
	for _, k := range s.Keys() {
		if strings.HasPrefix(k, q["path"]) {
			out = append(out, append([]byte(nil), s.Data[k]...))
		}
	}
	return out, nil
}

func (s *RecStore) Clear(ctx context.Context, q map[string]string) error {
	if err := s.op("clear", q["path"]); err != nil {
		return err
	}
	for _, k := range s.Keys() {
		if strings.HasPrefix(k, q["path"]) {
			delete(s.Data, k)
			if s.Record {
				s.Log = append(s.Log, Mutation{"remove", k, nil})
			}
		}
	}
	return nil
}

func (s *RecStore) Copy(ctx context.Context, from, to string) error {
	if err := s.op("copy", from); err != nil {
		return err
	}
	b, ok := s.Data[from]
	if !ok {
		return storage.ErrNotFound
	}
	cp := append([]byte(nil), b...)
	s.Data[to] = cp
	if s.Record {
		s.Log = append(s.Log, Mutation{"write", to, cp})
	}
	return nil
}

func (s *RecStore) ReadRange(ctx context.Context, key string, start, end int64) ([]byte, error) {
	b, err := s.Read(ctx, key)
	if err != nil {
		return nil, err
	}
	if start > int64(len(b)) {
		start = int64(len(b))
	}
	if end > int64(len(b)) || end < start {
		end = int64(len(b))
	}
	return b[start:end], nil
}

func (s *RecStore) StreamRead(ctx context.Context, key string) (io.ReadCloser, error) {
	return nil, errors.New("not implemented")
}
