#!/bin/bash
# Offline setup: build the rewriter and warm the Go build cache with one overlay build.
set -e
ROOT="$(cd "$(dirname "$(readlink -f "$0")")" && pwd)"
export GOFLAGS=-mod=mod GOPROXY=off GOSUMDB=off GOTOOLCHAIN=local
mkdir -p "$ROOT/tools/bin" "$ROOT/.cache" "$ROOT/evidence" "$ROOT/replays"
cd "$ROOT/tools" && go build -o "$ROOT/tools/bin/rewrite" ./rewrite
OUT=$(mktemp -d "$ROOT/.cache/build.XXXXXX")
trap 'rm -rf "$OUT"' EXIT
cd "$ROOT" && ./build.sh "$OUT"
echo setup ok
