#!/bin/bash
# Offline setup: build the rewriter and warm the Go build cache with one overlay build.
set -e
export GOFLAGS=-mod=mod GOPROXY=off GOSUMDB=off GOTOOLCHAIN=local
cd /verif/tools && go build -o /verif/tools/bin/rewrite ./rewrite
mkdir -p /verif/.cache /verif/evidence /verif/replays
OUT=$(mktemp -d /verif/.cache/build.XXXXXX)
trap 'rm -rf "$OUT"' EXIT
cd /verif && ./build.sh "$OUT"
echo setup ok
