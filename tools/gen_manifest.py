#!/usr/bin/env python3
"""Generates /verif/MANIFEST.json from the table below (kept in one place so it stays valid)."""
import json, sys

ALL = ["C%02d" % i for i in range(1, 21)]

# id -> (level, technique, level_text, level_note, design_ref)
CHECKS = {
 "C09": ("model_checking",
         "bounded-exhaustive enumeration of operation sequences on the real BlockRepository vs a reference slice (explicit enumeration, no sampling)",
         "Every sequence of <=3 (thorough: <=4) macro operations {add, grow to boundary, revert to boundary, save, save+reload} over the 1000-header file boundaries is executed on the real block repository over an in-memory store (both delete-missing behaviours) and every by-height / by-hash / tip / range query is compared with a reference list after every step.",
         "Storage write/remove atomic per key; synthetic headers (no PoW); heights concentrated at 0, 1000k-1, 1000k, 1000k+1 (k<=3) and tip.",
         "DESIGN.md §4 C09"),
}

PENDING_REASON = "check not built yet in this round (planned: see DESIGN.md §4); not claimed until it runs"

def main():
    checks = []
    for pid in ALL:
        if pid not in CHECKS:
            continue
        level, tech, text, note, ref = CHECKS[pid]
        checks.append({
            "property_id": pid,
            "quick_cmd": "./check %s --tier quick" % pid,
            "thorough_cmd": "./check %s --tier thorough" % pid,
            "evidence_file": "/verif/evidence/%s.json" % pid,
            "replay_cmd_template": "./check %s --replay {path}" % pid,
            "engine": "vrt-explorer",
            "level_claimed": {"category": level, "text": text, "design_ref": ref},
            "level_note": note,
            "technique": tech,
        })
    na = [{"property_id": p, "reason": PENDING_REASON} for p in ALL if p not in CHECKS]
    m = {
        "version": 1,
        "setup_cmd": "./setup.sh",
        "hooks": {
            "guard": "verif (build tag; carried only by files that the checks add through a go build -overlay; /repo itself contains no instrumentation)",
            "enable": "go build -tags verif -overlay <generated overlay.json> ./internal/verif/cmd/check  (see /verif/build.sh: sources of the current working tree are rewritten into a temp dir; time/sync/net/chan/select/go are redirected to /verif/vrt)",
            "baseline_off_cmd": "cd /repo && GOFLAGS=-mod=mod GOPROXY=off GOSUMDB=off go test -json -vet=off -count=1 -timeout 25m ./...",
            "source_commits": [],
            "add_only": True,
        },
        "engines": [{
            "name": "vrt-explorer",
            "path": "/verif/harness (explorers, oracles), /verif/vrt (controlled scheduler, virtual clock/net/chan/sync), /verif/tools/rewrite (AST rewriter)",
            "serves_properties": sorted(CHECKS.keys()),
            "kind_free_text": "hand-written model checker for Go: stateless deviation-bounded schedule exploration and explicit-state search over environment histories, executed directly on the rewritten implementation; bounded-exhaustive enumeration for sequential components",
        }],
        "checks": checks,
        "not_applicable": na,
        "notes": "Exit codes of ./check: 0 held (known findings printed), 1 VIOLATION, 2 harness could not be built/run against this tree. Known findings: /verif/known_findings.json.",
    }
    json.dump(m, open("/verif/MANIFEST.json", "w"), indent=1)
    print("wrote MANIFEST.json: %d checks, %d not_applicable" % (len(checks), len(na)))

if __name__ == "__main__":
    main()
