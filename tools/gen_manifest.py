#!/usr/bin/env python3
"""Generates /verif/MANIFEST.json from the table below (kept in one place so it stays valid)."""
import json, sys

ALL = ["C%02d" % i for i in range(1, 21)]

# id -> (level, technique, level_text, level_note, design_ref)
MC = "model_checking"
NSCHED = " + stateless schedule exploration (one stall / pre-emption at every scheduling point of scripted baselines)"
CONC = " + exhaustive interleaving enumeration (every mutex/storage/atomic operation a scheduling point, pre-emption bounded, outcome must equal a sequential order) of small component harnesses"
HIST = "explicit-state BFS over environment histories, every transition executed on the real implementation (Node.Run under a controlled cooperative scheduler with virtual clock/network; successors by replay on a fresh instance; canonical state keys by reflective dump)"
NOTE_NODE = "Peer model P is one Bitcoin-node behaviour (answers getheaders/getdata, BIP130 header announcements, pings); hist mode explores quiescent-point event orders with the canonical thread schedule and merges states differing only in poll phase; storage key-atomic; synthetic blocks/txs without PoW or signatures."
CHECKS = {
 "C01": (MC, HIST + "; convergence decided by a fair drain suffix from every reached state" + NSCHED,
         "All histories up to depth 5 (thorough 7) over {answer requests in/out of order, extend 1/2/12, reorg depth 1/2, return to abandoned branch, ping, tick, settle, duplicate and late duplicate of a still-valid announcement, clean restart, connection drop} from a synced, a cold-start and two header-batch scenarios (peer sends headers 4 at a time; one starts from a reconnect in the pending-sync phase); from every reached state the node must converge to the peer's best chain after a drain incl. 61 s/601 s time-outs; HandleInSync only when all announced-and-consumed blocks are held and a headers message of this session reached the peer's tip. Three baselines with a stall/pre-emption at every scheduling point.",
         NOTE_NODE, "DESIGN.md §4 C01"),
 "C02": (MC, HIST + " with an adversarial trusted connection; invariants after every event" + CONC + " (block repository) + single-fault runs",
         "All sequences up to depth 5 (8) of header messages (lists drawn from a tree with forks at processed / pending / pre-start blocks, duplicates, gaps, unknown parents, empty) and block messages (requested, unrequested, duplicate, unknown) with block-processor steps in between, in three scenarios (normal, start block not yet seen, fork across the 1000-header file boundary): parent linkage of every stored block, Hash/Height inverse both ways, contiguous HandleHeaders heights (shadow chain), no panic. Block repository: all interleavings (pre-emption bound 2, thorough unbounded) of save / add / revert programs of 2-3 threads across the file boundary. Header sync below the start block across the boundary with every storage operation failing once and the peer repeating its headers.",
         "No assumption on peer behaviour beyond well-formed wire messages; canonical thread schedule between events; hash->height direction read from the private map by reflection (public twin: Height(Hash(h))).", "DESIGN.md §4 C02"),
 "C03": (MC, HIST + "; per-txid delivery monitor as oracle" + NSCHED,
         "All histories up to depth 4 (thorough 6) of how relevant/child/irrelevant txs reach the node (trusted/untrusted inv and tx, getdata answers, local submission, blocks, restart, crash): HandleTx at most once per handler and txid, completeness, no irrelevant delivery, spent outputs per input, identical handler streams, a confirmation with proof for every relevant tx of a processed block; a second scenario relays 104 txs back to back (more than the tx channel buffers).",
         NOTE_NODE, "DESIGN.md §4 C03"),
 "C04": (MC, "bounded-exhaustive enumeration of block shapes through the real in-sync node; independent merkle verifier",
         "Block sizes 1..9 (17), every subset of relevant positions for n<=6 (8) and all singletons/pairs above, previously delivered or not; corrupted bodies (drop/insert/swap/alter) under an unchanged header for n<=5 (7), served in sync, during initial sync and handed to ProcessBlock; a one-block reorganisation with the same txs rotated (n<=5 (8)); previously seen txs flagged unsafe by a double spend before they confirm; the block synced, the process killed after every storage mutation, restarted and synced again (n<=4 (6)): at the moment of every notification the node holds the proof's header; proof path + duplicated levels hash to the header's root, true index, depth 0, new vs update; corrupted blocks never advance the chain or deliver anything.",
         NOTE_NODE + " Duplicate-tail malleability (corruptions that keep the root) is not asserted.", "DESIGN.md §4 C04"),
 "C05": (MC, "explicit-state BFS on the real MemPool vs map[outpoint]set<txid> (component; state key includes slice capacities) + " + HIST + " (node level)",
         "Component: every operation sequence up to depth 5 (7) over add/remove/conflicting/request/tick on 5 (7) txs with forced outpoint collisions, compared with a reference index. Node: all histories up to depth 4 (6) of arrival orders/sources/evictions; each relevant member of a conflicting pair reported unsafe, never safe afterwards, no spurious unsafe; a focused scenario with conflicts that span a clean restart or a crash.",
         NOTE_NODE, "DESIGN.md §4 C05"),
 "C06": (MC, HIST + "; cancel/unsafe update oracle" + NSCHED,
         "All histories up to depth 4 (6) of unconfirmed relevant/irrelevant txs and confirming blocks with double spends (winner relevant or not, seen before or not, one or two losers); cancelled+unsafe update for each delivered loser (also one delivered before a clean restart, or before a crash if a block was processed in between), block on the node's chain, the block's relevant txs delivered with proofs.",
         NOTE_NODE, "DESIGN.md §4 C06"),
 "C07": (MC, HIST + " with virtual clock; state-trajectory oracle + liveness phase from every state" + NSCHED,
         "All histories up to depth 4 (6) mixing untrusted/trusted announcements, conflicts, clock steps around the 2000 ms safe delay, confirmation, local submission, restart; conflicts from untrusted and trusted peers, relevant and irrelevant, confirmed while the node was down; invariants on every per-txid state sequence and safe-within-bound when warranted (also for txs delivered before a clean restart).",
         NOTE_NODE, "DESIGN.md §4 C07"),
 "C15": (MC, "bounded-exhaustive enumeration of field boundary values through the real codec (encode, decode, re-encode, prefixes, concatenations)" + CONC + " (concurrent serialisation)",
         "485 values (lists of 0/1/2/253/256/257/300 entries, multi-byte text) over all 37 payload types (product of per-field boundary domains): exact byte consumption, identical re-encoding, structural equality, type tables; every strict prefix fails with an error; all ordered pairs/triples of representatives decode as a stream. 2 (3) goroutines serialising different messages to their own connections, all interleavings: each connection receives exactly its message.",
         "Dependency-typed fields compared through their own encoding.", "DESIGN.md §4 C15"),
 "C16": (MC, "explicit-state BFS over call/response histories of the real RemoteClient.Run + stateless schedule exploration (one deviation at every point, all alternatives of multi-ready selects) + bounded-exhaustive outputs lookups",
         "All histories up to depth 4 (6) of concurrent calls of mixed kinds, server answers in any order (proper/reject/none), unsolicited responses, clock past the request time-out; every call gets its own key's response, the server's reject, or a time-out; also from the start states 'fee-quotes / GetTx call given up at the message time-out before the handshake completed, its request written afterwards'. With an immediately answering server: stall/pre-emption at every scheduling point and every select alternative. All outpoint lists <= 3 over 2 txids x {0,1,out of range}.",
         "Scripted server over the virtual network with the real codec and real signatures; RemoteClient, the threads package, channels, selects, timers and atomics run on the controlled scheduler.", "DESIGN.md §4 C16"),
 "C17": (MC, "explicit-state BFS over server notification streams / drops / reconnects + stateless schedule exploration with an immediately replaying server",
         "All streams up to depth 5 (7) of Tx/TxUpdate with next/repeated/skipped/old/far ids, Headers, InSync, drops and reconnects (Ready(NextMessageID()) from the handler; also a persisted first id 57, a replaying server, and a slow application that resumes from its own last handled id): consecutive ids from the declared id, NextMessageID = last+1, handlers identical, server order, nothing missed. Stall / pre-emption / drop at every scheduling point of two baselines.",
         "As C16.", "DESIGN.md §4 C17"),
 "C18": (MC, "explicit-state BFS over accept-message variants, application call placements and connection drops on the real RemoteClient.Run, both connection types" + NSCHED,
         "All histories up to depth 4 (6) with a manual server: ten accept variants (valid, unrelated key, key for another hash, other signer, root signer, altered message/utxo/push counts, signature over another hash, replayed previous accept), a request / subscription / Ready before and after accept and while disconnected, notifications, drops, reconnects: register verifies, only handshake types before the handshake, forged accept ends Run with an error and no data, success implies bytes at the server.",
         "As C16.", "DESIGN.md §4 C18"),
 "C19": (MC, "stateless schedule exploration of the real Node.Run with one deviation (Stop / connection close / reset / stall / pre-emption) inserted at every scheduling point of scripted baselines",
         "Nine baselines (cold start with sync+txs+block, refused dials, dials refused beyond MaxRetries, in sync with an untrusted peer, scripted connection loss, scripted Stop with concurrent application calls, a 104-tx burst filling the tx channel from one and from two peers, a failing application output fetcher); at every scheduling point one deviation; Run/Stop return within retry delay + 4 s virtual time, no thread left, no callback after Stop, storage equals memory, reconnect converges without re-announcing.",
         NOTE_NODE + " Deviation bound 1 over scripted baselines (some baselines script a first event so that two-event races are covered); atomics are not scheduling points.", "DESIGN.md §4 C19"),
 "C08": (MC, "bounded-exhaustive enumeration of scripts / subscription sequences on the real Node.IsRelevant vs an independent tokenizer and multiset",
         "Every sequence of <=3 (4) tokens from a 26-token alphabet and every byte prefix of each script, in output 0/1 and input 0/1; every subscribe/unsubscribe sequence <=4 (5) incl. batches; contract flag x action kinds alone and in pairs of outputs; every ordered pair of 14 scripts of interest in every pair of positions.",
         "Payload universe of 5 values; OP_1..16/OP_1NEGATE treated as one-byte pushes on both sides.", "DESIGN.md §4 C08"),
 "C09": (MC,
         "bounded-exhaustive enumeration of operation sequences on the real BlockRepository vs a reference slice (explicit enumeration, no sampling)" + CONC + " (save / add / revert from 2-3 threads)",
         "Every sequence of <=3 (thorough: <=4) macro operations {add, grow to boundary, revert to boundary, equal-length fork, save, save+reload} over the 1000-header file boundaries is executed on the real block repository over an in-memory store (both delete-missing behaviours) and every by-height / by-hash / tip / range query is compared with a reference list after every step.",
         "Storage write/remove atomic per key; synthetic headers (no PoW); heights concentrated at 0, 1000k-1, 1000k, 1000k+1 (k<=3) and tip.",
         "DESIGN.md §4 C09"),
 "C10": ("fault_enumeration", "crash-point and single-fault enumeration over the storage mutation/operation log of canonical histories executed on the real node (every prefix, every operation)" + CONC + " (block repository)",
         "For each canonical history (sync, extension, reorgs within a file and across the 1000 boundary, reorg with a relevant tx, clean stop; both delete-missing behaviours): a fresh node on EVERY prefix image of the mutation log must load a hash-linked single-branch chain and re-converge; EVERY single storage operation failing once (with and without the scenario's final clean restart) must leave a node that converges, or one that can be stopped and converges after a restart, and what it leaves behind after a clean stop must load as one announced branch.",
         NOTE_NODE + " Crash = loss of all threads between two storage mutations; writes atomic per key.", "DESIGN.md §4 C10"),
 "C11": (MC, HIST + " with clean restart events" + NSCHED,
         "All histories up to depth 4 (6) with Stop + new Node on the same store at any quiescent point: no re-delivery, confirmation after restart is an update with proof, safe not repeated, flags sticky, GetTx returns the delivered tx; safe still reported after the restart when warranted; the application re-subscribing its filter late.",
         NOTE_NODE, "DESIGN.md §4 C11"),
 "C12": (MC, "differential " + HIST + ": each history is executed with and without its untrusted events",
         "All histories up to depth 3 (5) over 23 trusted and raw untrusted-connection events, depth 4 (6) over a focused alphabet, and a chain of 1002 blocks with a reorganisation across the file boundary and an untrusted peer still on the abandoned branch (header shapes, inv, tx plain and in extmsg framing, blocks incl. a forged body for an outstanding or delivered-but-unprocessed request, addr, garbage, restart): final chain, HandleHeaders sequence and confirmations identical, safe set may only shrink, nothing requested from / delivered because of an unverified peer.",
         NOTE_NODE + " One untrusted connection.", "DESIGN.md §4 C12"),
 "C13": (MC, "explicit-state BFS on the real state.State vs a two-FIFO reference model" + CONC + " (request state) + " + HIST + " (node level, block download oracle)",
         "Every operation sequence up to depth 6 (9) over announce/deliver(small, 60 MB)/pop/next-request/clear-all/clear-after/set-last on a tree with two forks; return values, counts, last hash and buffered-byte accounting compared after every step (deliveries incl. bodies that fail the merkle check). Node level: histories with announcements longer than the ten-block window, forks off the window and the backlog, raw headers messages announcing a branch and its fork at once.",
         "Fake block bodies (size only); component level (the wire-level order of getdata is exercised by C01's histories).", "DESIGN.md §4 C13"),
 "C14": (MC, HIST + " with virtual clock; oracle over timestamped getdata(tx) on all connections" + NSCHED + CONC + " (tx tracker + mempool)",
         "All histories up to depth 4 (6) of overlapping inv announcements from the trusted and two verified untrusted connections, deliveries, silence, pings, 1 s/3.1 s steps, confirmation: one request per 3 s window, none after the body/block, re-request from another announcer after the window. Component: one Check over n tracked expired txids around the 100-per-message batching; Check || block clean-up || announcement || arrival in all interleavings.",
         NOTE_NODE, "DESIGN.md §4 C14"),
 "C20": (MC, "exhaustive enumeration of hostile splices over valid encodings, each decoded in a memory-limited worker process",
         "Every valid corpus encoding (incl. lists of 256/257/300 entries) decoded as is; up to 4 encodings of each of the 37 payload types and 6 kinds of stored record: every byte offset overwritten by each of 16 hostile counts/lengths (with and without truncation) plus all strings <=3 (4) over 8 bytes behind every type code: no panic, allocation <= 512*len+256KiB, process survives. Five open known findings, all inside the dependency tokenized/pkg (wire.MsgTx decoding, Signature.Deserialize).",
         "Allocation measured by runtime counters; 3 GB address-space limit per worker.", "DESIGN.md §4 C20"),
}

PENDING_REASON = "check not built yet in this round (planned: see DESIGN.md §4); not claimed until it runs"

def main():
    checks = []
    for pid in ALL:
        if pid not in CHECKS:
            continue
        level, tech, text, note, ref = CHECKS[pid]
        checks.append({
            "property_id": pid,
            "quick_cmd": "./check %s --tier quick" % pid,
            "thorough_cmd": "./check %s --tier thorough" % pid,
            "evidence_file": "/verif/evidence/%s.json" % pid,
            "replay_cmd_template": "./check %s --replay {path}" % pid,
            "engine": "vrt-explorer",
            "level_claimed": {"category": level, "text": text, "design_ref": ref},
            "level_note": note,
            "technique": tech,
        })
    na = [{"property_id": p, "reason": PENDING_REASON} for p in ALL if p not in CHECKS]
    m = {
        "version": 1,
        "setup_cmd": "./setup.sh",
        "hooks": {
            "guard": "verif (build tag; carried only by files that the checks add through a go build -overlay; /repo itself contains no instrumentation)",
            "enable": "go build -tags verif -overlay <generated overlay.json> ./internal/verif/cmd/check  (see /verif/build.sh: sources of the current working tree are rewritten into a temp dir; time/sync/net/chan/select/go are redirected to /verif/vrt)",
            "baseline_off_cmd": "cd /repo && GOFLAGS=-mod=mod GOPROXY=off GOSUMDB=off go test -json -vet=off -count=1 -timeout 25m ./...",
            "source_commits": [],
            "add_only": True,
        },
        "engines": [{
            "name": "vrt-explorer",
            "path": "/verif/harness (explorers, oracles), /verif/vrt (controlled scheduler, virtual clock/net/chan/sync), /verif/tools/rewrite (AST rewriter)",
            "serves_properties": sorted(CHECKS.keys()),
            "kind_free_text": "hand-written model checker for Go: stateless deviation-bounded schedule exploration and explicit-state search over environment histories, executed directly on the rewritten implementation; bounded-exhaustive enumeration for sequential components",
        }],
        "checks": checks,
        "not_applicable": na,
        "notes": "Exit codes of ./check: 0 held (known findings printed), 1 VIOLATION, 2 harness could not be built/run against this tree. Known findings: /verif/known_findings.json.",
    }
    json.dump(m, open("/verif/MANIFEST.json", "w"), indent=1)
    print("wrote MANIFEST.json: %d checks, %d not_applicable" % (len(checks), len(na)))

if __name__ == "__main__":
    main()
