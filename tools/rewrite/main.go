// rewrite: mechanical source-to-source transformation of tokenized/spynode (current working tree)
// so that every source of scheduling / clock / network nondeterminism goes through the vrt shims.
// See DESIGN.md §3.1. Output: rewritten copies + a `go build -overlay` JSON. /repo is never edited.
package main

import (
	"bytes"
	"encoding/json"
	"flag"
	"fmt"
	"go/ast"
	"go/format"
	"go/token"
	"go/types"
	"os"
	"path/filepath"
	"sort"
	"strconv"
	"strings"

	"golang.org/x/tools/go/ast/astutil"
	"golang.org/x/tools/go/packages"
)

const (
	modPath     = "github.com/tokenized/spynode"
	vrtPath     = modPath + "/pkg/vrt"
	vtimePath   = vrtPath + "/vtime"
	vsyncPath   = vrtPath + "/vsync"
	vnetPath    = vrtPath + "/vnet"
	vthreadPath = vrtPath + "/vthreads"
	vatomicPath = vrtPath + "/vatomic"
	threadsPath = "github.com/tokenized/threads"
)

var importMap = map[string]string{
	"time":        vtimePath,
	"sync":        vsyncPath,
	"net":         vnetPath,
	"sync/atomic": vatomicPath,
	threadsPath:   vthreadPath,
}

func die(format string, a ...interface{}) {
	fmt.Fprintf(os.Stderr, "rewrite: "+format+"\n", a...)
	os.Exit(2)
}

type rewriter struct {
	fset   *token.FileSet
	info   *types.Info
	file   *ast.File
	usesRT bool
	fname  string
	tmpN   int

	dropLabels []*ast.LabeledStmt
	rangeKind  map[*ast.RangeStmt]string
	callKind   map[*ast.CallExpr]string
	makeElem   map[*ast.CallExpr]*ast.ChanType
}

func (r *rewriter) tmp(prefix string) string {
	r.tmpN++
	return fmt.Sprintf("_vrt_%s%d", prefix, r.tmpN)
}

func sel(pkg, name string) ast.Expr {
	return &ast.SelectorExpr{X: ast.NewIdent(pkg), Sel: ast.NewIdent(name)}
}

func (r *rewriter) vrt(name string) ast.Expr {
	r.usesRT = true
	return sel("vrt", name)
}

func call(fun ast.Expr, args ...ast.Expr) *ast.CallExpr {
	return &ast.CallExpr{Fun: fun, Args: args}
}

func method(x ast.Expr, name string, args ...ast.Expr) *ast.CallExpr {
	return call(&ast.SelectorExpr{X: paren(x), Sel: ast.NewIdent(name)}, args...)
}

func paren(x ast.Expr) ast.Expr {
	switch x.(type) {
	case *ast.Ident, *ast.SelectorExpr, *ast.CallExpr, *ast.IndexExpr, *ast.ParenExpr:
		return x
	}
	return &ast.ParenExpr{X: x}
}

func (r *rewriter) isChan(e ast.Expr) bool {
	t := r.info.TypeOf(e)
	if t == nil {
		return false
	}
	_, ok := t.Underlying().(*types.Chan)
	return ok
}

func (r *rewriter) isMap(e ast.Expr) bool {
	t := r.info.TypeOf(e)
	if t == nil {
		return false
	}
	_, ok := t.Underlying().(*types.Map)
	return ok
}

func (r *rewriter) isBuiltin(e ast.Expr, name string) bool {
	id, ok := e.(*ast.Ident)
	if !ok || id.Name != name {
		return false
	}
	_, ok = r.info.Uses[id].(*types.Builtin)
	return ok
}

func (r *rewriter) pos(n ast.Node) string {
	p := r.fset.Position(n.Pos())
	return fmt.Sprintf("%s:%d", filepath.Base(p.Filename), p.Line)
}

func strLit(s string) ast.Expr {
	return &ast.BasicLit{Kind: token.STRING, Value: strconv.Quote(s)}
}

func intLit(i int) ast.Expr {
	return &ast.BasicLit{Kind: token.INT, Value: strconv.Itoa(i)}
}

func isPure(e ast.Expr) bool {
	switch x := e.(type) {
	case *ast.Ident:
		return true
	case *ast.SelectorExpr:
		return isPure(x.X)
	case *ast.ParenExpr:
		return isPure(x.X)
	case *ast.StarExpr:
		return isPure(x.X)
	}
	return false
}

func isBlank(e ast.Expr) bool {
	if e == nil {
		return true
	}
	id, ok := e.(*ast.Ident)
	return ok && id.Name == "_"
}

// recvOperand returns c if e is `<-c` (possibly parenthesised).
func recvOperand(e ast.Expr) (ast.Expr, bool) {
	for {
		p, ok := e.(*ast.ParenExpr)
		if !ok {
			break
		}
		e = p.X
	}
	u, ok := e.(*ast.UnaryExpr)
	if !ok || u.Op != token.ARROW {
		return nil, false
	}
	return u.X, true
}

// pre: transformations that need the original (typed) nodes and must happen before children are
// rewritten; post: leaf-level transformations.
func (r *rewriter) rewriteFile() {
	r.rangeKind = map[*ast.RangeStmt]string{}
	r.callKind = map[*ast.CallExpr]string{}
	r.makeElem = map[*ast.CallExpr]*ast.ChanType{}
	// pre-order: classify using type information of the original nodes and rewrite the
	// two-value receive forms; post-order: replace nodes.
	pre := func(c *astutil.Cursor) bool {
		switch n := c.Node().(type) {
		case *ast.RangeStmt:
			if r.isChan(n.X) {
				r.rangeKind[n] = "chan"
			} else if r.isMap(n.X) {
				r.rangeKind[n] = "map"
			}
		case *ast.AssignStmt:
			if len(n.Lhs) == 2 && len(n.Rhs) == 1 {
				if ch, ok := recvOperand(n.Rhs[0]); ok {
					n.Rhs[0] = method(ch, "Recv2")
				}
			}
		case *ast.ValueSpec:
			if len(n.Names) == 2 && len(n.Values) == 1 {
				if ch, ok := recvOperand(n.Values[0]); ok {
					n.Values[0] = method(ch, "Recv2")
				}
			}
		case *ast.CallExpr:
			if r.isBuiltin(n.Fun, "make") && len(n.Args) >= 1 {
				if ct, ok := n.Args[0].(*ast.ChanType); ok {
					r.callKind[n] = "make"
					r.makeElem[n] = ct
				}
			} else if r.isBuiltin(n.Fun, "close") && len(n.Args) == 1 {
				r.callKind[n] = "close"
			} else if (r.isBuiltin(n.Fun, "len") || r.isBuiltin(n.Fun, "cap")) && len(n.Args) == 1 &&
				r.isChan(n.Args[0]) {
				r.callKind[n] = n.Fun.(*ast.Ident).Name
			}
		}
		return true
	}
	astutil.Apply(r.file, pre, func(c *astutil.Cursor) bool {
		switch n := c.Node().(type) {
		case *ast.RangeStmt:
			switch r.rangeKind[n] {
			case "chan":
				c.Replace(r.rangeChan(n))
			case "map":
				r.rangeMap(c, n)
			}
		case *ast.SelectStmt:
			r.selectStmt(c, n)
		case *ast.GoStmt:
			c.Replace(r.goStmt(n))
		case *ast.SendStmt:
			c.Replace(&ast.ExprStmt{X: method(n.Chan, "Send", n.Value)})
		case *ast.UnaryExpr:
			if n.Op == token.ARROW {
				c.Replace(method(n.X, "Recv"))
			}
		case *ast.CallExpr:
			switch r.callKind[n] {
			case "make":
				size := intLit(0)
				if len(n.Args) > 1 {
					size = n.Args[1]
				}
				r.usesRT = true
				c.Replace(call(&ast.IndexExpr{X: sel("vrt", "MakeChan"), Index: r.makeElem[n].Value}, size))
			case "close":
				c.Replace(method(n.Args[0], "Close"))
			case "len":
				c.Replace(method(n.Args[0], "Len"))
			case "cap":
				c.Replace(method(n.Args[0], "Cap"))
			}
		case *ast.ChanType:
			r.usesRT = true
			c.Replace(&ast.StarExpr{X: &ast.IndexExpr{X: sel("vrt", "Chan"), Index: n.Value}})
		}
		return true
	})

	// Imports.
	for _, imp := range r.file.Imports {
		p, _ := strconv.Unquote(imp.Path.Value)
		if np, ok := importMap[p]; ok {
			name := filepath.Base(p)
			if imp.Name != nil {
				name = imp.Name.Name
			}
			imp.Name = ast.NewIdent(name)
			imp.Path.Value = strconv.Quote(np)
			imp.EndPos = token.NoPos
		}
	}
	if r.usesRT {
		astutil.AddNamedImport(r.fset, r.file, "vrt", vrtPath)
	}
}

func (r *rewriter) rangeChan(n *ast.RangeStmt) ast.Stmt {
	ok := ast.NewIdent(r.tmp("ok"))
	var key ast.Expr = ast.NewIdent("_")
	if !isBlank(n.Key) {
		key = n.Key
	}
	tok := token.DEFINE
	chExpr := n.X
	recv := func() ast.Expr { return method(chExpr, "Recv2") }
	if n.Tok == token.ASSIGN && !isBlank(n.Key) {
		// for x = range c  -> var ok bool; for x, ok = c.Recv2(); ok; x, ok = c.Recv2()
		// (needs ok predeclared; wrap not needed: use a DEFINE of ok via init of dummy)
		die("%s: `for x = range ch` (assignment form) not supported", r.pos(n))
	}
	return &ast.ForStmt{
		For:  n.For,
		Init: &ast.AssignStmt{Lhs: []ast.Expr{key, ok}, Tok: tok, Rhs: []ast.Expr{recv()}},
		Cond: ok,
		Post: &ast.AssignStmt{Lhs: []ast.Expr{key, ok}, Tok: token.ASSIGN, Rhs: []ast.Expr{recv()}},
		Body: n.Body,
	}
}

func (r *rewriter) rangeMap(c *astutil.Cursor, n *ast.RangeStmt) {
	if n.Tok == token.ASSIGN && (!isBlank(n.Key) || !isBlank(n.Value)) {
		die("%s: `for k = range m` (assignment form) not supported", r.pos(n))
	}
	m := n.X
	var pre []ast.Stmt
	if !isPure(m) {
		if _, labeled := c.Parent().(*ast.LabeledStmt); labeled {
			die("%s: labeled range over impure map expression not supported", r.pos(n))
		}
		t := ast.NewIdent(r.tmp("m"))
		pre = append(pre, &ast.AssignStmt{Lhs: []ast.Expr{t}, Tok: token.DEFINE, Rhs: []ast.Expr{m}})
		m = t
	}
	var key ast.Expr = ast.NewIdent(r.tmp("k"))
	if !isBlank(n.Key) {
		key = n.Key
	}
	var val ast.Expr = ast.NewIdent("_")
	if !isBlank(n.Value) {
		val = n.Value
	}
	ok := ast.NewIdent(r.tmp("ok"))
	guard := []ast.Stmt{
		&ast.AssignStmt{Lhs: []ast.Expr{val, ok}, Tok: token.DEFINE,
			Rhs: []ast.Expr{&ast.IndexExpr{X: m, Index: key}}},
		&ast.IfStmt{Cond: &ast.UnaryExpr{Op: token.NOT, X: ok},
			Body: &ast.BlockStmt{List: []ast.Stmt{&ast.BranchStmt{Tok: token.CONTINUE}}}},
	}
	body := &ast.BlockStmt{Lbrace: n.Body.Lbrace, Rbrace: n.Body.Rbrace,
		List: append(guard, n.Body.List...)}
	loop := &ast.RangeStmt{
		For:   n.For,
		Key:   ast.NewIdent("_"),
		Value: key,
		Tok:   token.DEFINE,
		X:     call(r.vrt("SortedKeys"), m),
		Body:  body,
	}
	if len(pre) == 0 {
		c.Replace(loop)
		return
	}
	c.Replace(&ast.BlockStmt{List: append(pre, loop)})
}

func (r *rewriter) goStmt(n *ast.GoStmt) ast.Stmt {
	label := strLit(r.pos(n))
	cl := n.Call
	if fl, ok := cl.Fun.(*ast.FuncLit); ok && len(cl.Args) == 0 {
		return &ast.ExprStmt{X: call(r.vrt("Go"), label, fl)}
	}
	// Evaluate function value and arguments now, call later.
	var stmts []ast.Stmt
	var lhs, rhs []ast.Expr
	newArgs := make([]ast.Expr, len(cl.Args))
	for i, a := range cl.Args {
		t := ast.NewIdent(r.tmp("a"))
		lhs = append(lhs, t)
		rhs = append(rhs, a)
		newArgs[i] = t
	}
	if len(lhs) > 0 {
		stmts = append(stmts, &ast.AssignStmt{Lhs: lhs, Tok: token.DEFINE, Rhs: rhs})
	}
	inner := &ast.CallExpr{Fun: cl.Fun, Args: newArgs, Ellipsis: cl.Ellipsis}
	fl := &ast.FuncLit{Type: &ast.FuncType{Params: &ast.FieldList{}},
		Body: &ast.BlockStmt{List: []ast.Stmt{&ast.ExprStmt{X: inner}}}}
	stmts = append(stmts, &ast.ExprStmt{X: call(r.vrt("Go"), label, fl)})
	return &ast.BlockStmt{List: stmts}
}

func (r *rewriter) selectStmt(c *astutil.Cursor, n *ast.SelectStmt) {
	selv := ast.NewIdent(r.tmp("sel"))
	var setup []ast.Stmt
	setup = append(setup, &ast.AssignStmt{Lhs: []ast.Expr{selv}, Tok: token.DEFINE,
		Rhs: []ast.Expr{call(r.vrt("NewSelect"), strLit(r.pos(n)))}})
	var cases []ast.Stmt
	idx := 0
	for _, cs := range n.Body.List {
		cc := cs.(*ast.CommClause)
		if cc.Comm == nil {
			setup = append(setup, &ast.ExprStmt{X: method(selv, "SetDefault")})
			// Do() answers -1 for the default clause; as the switch's own default it keeps Go's
			// terminating-statement analysis of the original select intact
			cases = append(cases, &ast.CaseClause{List: nil, Body: cc.Body})
			continue
		}
		var body []ast.Stmt
		// NB: children were already rewritten (post-order): sends are ExprStmt{c.Send(v)},
		// receives are c.Recv() / c.Recv2() calls.
		switch s := cc.Comm.(type) {
		case *ast.ExprStmt:
			ce := s.X.(*ast.CallExpr)
			fn := ce.Fun.(*ast.SelectorExpr)
			switch fn.Sel.Name {
			case "Send":
				setup = append(setup, &ast.ExprStmt{X: method(fn.X, "SelSend", selv, ce.Args[0])})
			case "Recv":
				setup = append(setup, &ast.ExprStmt{X: method(fn.X, "SelRecv", selv)})
			default:
				die("%s: unexpected select comm %s", r.pos(n), fn.Sel.Name)
			}
		case *ast.AssignStmt:
			ce := s.Rhs[0].(*ast.CallExpr)
			fn := ce.Fun.(*ast.SelectorExpr)
			rc := ast.NewIdent(r.tmp("rc"))
			setup = append(setup, &ast.AssignStmt{Lhs: []ast.Expr{rc}, Tok: token.DEFINE,
				Rhs: []ast.Expr{method(fn.X, "SelRecv", selv)}})
			get := "Val"
			if fn.Sel.Name == "Recv2" {
				get = "Val2"
			}
			body = append(body, &ast.AssignStmt{Lhs: s.Lhs, Tok: s.Tok,
				Rhs: []ast.Expr{method(rc, get)}})
			// avoid "declared and not used" for := when the body ignores the variable
			if s.Tok == token.DEFINE {
				for _, l := range s.Lhs {
					if !isBlank(l) {
						body = append(body, &ast.AssignStmt{Lhs: []ast.Expr{ast.NewIdent("_")},
							Tok: token.ASSIGN, Rhs: []ast.Expr{l}})
					}
				}
			}
		default:
			die("%s: unexpected select comm clause %T", r.pos(n), cc.Comm)
		}
		cases = append(cases, &ast.CaseClause{List: []ast.Expr{intLit(idx)},
			Body: append(body, cc.Body...)})
		idx++
	}
	hasDefault := false
	for _, cs := range n.Body.List {
		if cs.(*ast.CommClause).Comm == nil {
			hasDefault = true
		}
	}
	if !hasDefault {
		// keeps Go's terminating-statement analysis: a select without default never falls through
		cases = append(cases, &ast.CaseClause{List: nil, Body: []ast.Stmt{
			&ast.ExprStmt{X: call(ast.NewIdent("panic"), strLit("vrt: unreachable select default"))}}})
	}
	sw := &ast.SwitchStmt{Switch: n.Select, Tag: method(selv, "Do"),
		Body: &ast.BlockStmt{Lbrace: n.Body.Lbrace, Rbrace: n.Body.Rbrace, List: cases}}
	var inner ast.Stmt = sw
	if ls, ok := c.Parent().(*ast.LabeledStmt); ok {
		// Move the label onto the switch: L: select{} => { setup; L: switch{} }. The labeled
		// statement node is the parent; we replace its Stmt by an empty statement trick: turn the
		// parent into the block by swapping contents.
		inner = &ast.LabeledStmt{Label: ast.NewIdent(ls.Label.Name), Stmt: sw}
		ls.Label = ast.NewIdent("_vrt_unused_" + ls.Label.Name)
		// A label that is never used is an error in Go, so instead of keeping the outer label we
		// mark it for removal below.
		r.dropLabels = append(r.dropLabels, ls)
	}
	c.Replace(&ast.BlockStmt{List: append(setup, inner)})
}

func (r *rewriter) removeDroppedLabels() {
	if len(r.dropLabels) == 0 {
		return
	}
	drop := map[*ast.LabeledStmt]bool{}
	for _, l := range r.dropLabels {
		drop[l] = true
	}
	astutil.Apply(r.file, nil, func(c *astutil.Cursor) bool {
		if ls, ok := c.Node().(*ast.LabeledStmt); ok && drop[ls] {
			c.Replace(ls.Stmt)
		}
		return true
	})
}

type overlay struct {
	Replace map[string]string
}

func main() {
	repo := flag.String("repo", "/repo", "repository root (working tree is read)")
	out := flag.String("out", "", "output directory for rewritten files")
	vrtDir := flag.String("vrt", "/verif/vrt", "vrt shim sources")
	harnessDir := flag.String("harness", "/verif/harness", "harness sources")
	extra := flag.String("extra", "", "comma separated extra overlay entries dst=src")
	modfile := flag.String("modfile", "", "alternate go.mod (so that the go command never edits the repository's)")
	flag.Parse()
	if *out == "" {
		die("-out required")
	}
	absRepo, _ := filepath.Abs(*repo)
	cfg := &packages.Config{
		Mode: packages.NeedName | packages.NeedFiles | packages.NeedCompiledGoFiles |
			packages.NeedSyntax | packages.NeedTypes | packages.NeedTypesInfo | packages.NeedImports,
		Dir:   absRepo,
		Tests: false,
		Env:   os.Environ(),
	}
	if *modfile != "" {
		cfg.BuildFlags = []string{"-modfile=" + *modfile}
	}
	pats := []string{"./internal/spynode", "./internal/handlers", "./internal/state",
		"./internal/storage", "./pkg/client", threadsPath}
	pkgs, err := packages.Load(cfg, pats...)
	if err != nil {
		die("load: %v", err)
	}
	bad := false
	for _, p := range pkgs {
		for _, e := range p.Errors {
			fmt.Fprintf(os.Stderr, "rewrite: %s: %v\n", p.PkgPath, e)
			bad = true
		}
	}
	if bad {
		die("the repository does not type-check")
	}
	ov := overlay{Replace: map[string]string{}}
	for _, p := range pkgs {
		isThreads := p.PkgPath == threadsPath
		for i, f := range p.Syntax {
			fname := p.CompiledGoFiles[i]
			r := &rewriter{fset: p.Fset, info: p.TypesInfo, file: f, fname: fname}
			needs := isThreads
			for _, imp := range f.Imports {
				ip, _ := strconv.Unquote(imp.Path.Value)
				if _, ok := importMap[ip]; ok {
					needs = true
				}
			}
			ast.Inspect(f, func(n ast.Node) bool {
				switch x := n.(type) {
				case *ast.ChanType, *ast.GoStmt, *ast.SelectStmt, *ast.SendStmt:
					needs = true
				case *ast.RangeStmt:
					if r.isMap(x.X) || r.isChan(x.X) {
						needs = true
					}
				}
				return true
			})
			if !needs {
				continue
			}
			r.rewriteFile()
			r.removeDroppedLabels()
			var buf bytes.Buffer
			if err := format.Node(&buf, p.Fset, f); err != nil {
				die("print %s: %v", fname, err)
			}
			src := buf.Bytes()
			var dst, virt string
			if isThreads {
				dst = filepath.Join(*out, "vthreads", filepath.Base(fname))
				virt = filepath.Join(absRepo, "pkg/vrt/vthreads", filepath.Base(fname))
				src = append([]byte("//go:build verif\n\n"), src...)
			} else {
				rel, err := filepath.Rel(absRepo, fname)
				if err != nil || strings.HasPrefix(rel, "..") {
					die("file outside repo: %s", fname)
				}
				dst = filepath.Join(*out, "repo", rel)
				virt = fname
			}
			os.MkdirAll(filepath.Dir(dst), 0o755)
			if err := os.WriteFile(dst, src, 0o644); err != nil {
				die("write: %v", err)
			}
			ov.Replace[virt] = dst
		}
	}
	// Virtual packages: vrt shims and harness.
	addTree := func(srcRoot, virtRoot string) {
		filepath.Walk(srcRoot, func(path string, fi os.FileInfo, err error) error {
			if err != nil || fi.IsDir() || !strings.HasSuffix(path, ".go") {
				return nil
			}
			rel, _ := filepath.Rel(srcRoot, path)
			ov.Replace[filepath.Join(virtRoot, rel)] = path
			return nil
		})
	}
	addTree(*vrtDir, filepath.Join(absRepo, "pkg/vrt"))
	addTree(*harnessDir, filepath.Join(absRepo, "internal/verif"))
	if *extra != "" {
		for _, kv := range strings.Split(*extra, ",") {
			p := strings.SplitN(kv, "=", 2)
			if len(p) == 2 {
				ov.Replace[p[0]] = p[1]
			}
		}
	}
	keys := make([]string, 0, len(ov.Replace))
	for k := range ov.Replace {
		keys = append(keys, k)
	}
	sort.Strings(keys)
	b, _ := json.MarshalIndent(ov, "", " ")
	if err := os.WriteFile(filepath.Join(*out, "overlay.json"), b, 0o644); err != nil {
		die("write overlay: %v", err)
	}
	fmt.Printf("rewrite: %d files in overlay\n", len(keys))
}
