#!/bin/bash
# Runs every kept seeded change against its own property's check (and extra related checks).
#   seedall.sh            all seeds, sequentially, on /repo
#   seedall.sh <k> <n>    lane k of n (seeds with index % n == k); lanes > 0 work on a scratch clone of
#                         /repo under /tmp (SEED_REPO), which is removed at the end, so that lanes can
#                         run side by side. /repo itself is only ever touched by lane 0.
cd /verif
k=${1:-0}; n=${2:-1}
if [ "$k" != "0" ]; then
  export SEED_REPO=/tmp/seedlane$k.repo
  rm -rf $SEED_REPO; git clone -q /repo $SEED_REPO || exit 2
fi
declare -A EXTRA=( [C01-A]="C13" [C02-A]="C09" [C05-A]="C11" [C07-A]="C11" [C07-B]="C05" [C03-B]="C11" [C10-A]="C09" )
i=0
for d in seeded/*/; do
  s=$(basename $d); case $s in _*) continue;; esac
  i=$((i+1)); [ $((i % n)) = "$k" ] || continue
  p=${s%%-*}
  tools/seedrun.py $s $p ${EXTRA[$s]} 2>&1 | grep -E "^C[0-9]+ on|refusing|does not"
done
[ "$k" != "0" ] && rm -rf $SEED_REPO
echo "lane $k done"
