#!/bin/bash
# Runs every seeded change against its own property's check (and extra related checks), sequentially.
cd /verif
declare -A EXTRA=( [C01-A]="C13" [C02-A]="C09" [C05-A]="C11" [C07-A]="C11" [C07-B]="C05" [C03-B]="C11" [C11-B]="C03" [C06-A]="C03" [C10-A]="C09" [C14-A]="" )
for d in seeded/*/; do
  s=$(basename $d); case $s in _*) continue;; esac
  p=${s%%-*}
  tools/seedrun.py $s $p ${EXTRA[$s]} 2>&1 | grep -E "^C[0-9]+ on" 
done
