#!/usr/bin/env python3
"""seedconfirm.py <seed>...: independently confirm a seeded change in a scratch worktree of /repo:
 (1) the patch applies and the tree builds, (2) the repository's own test suite still passes with it,
 (3) the demonstration fails with the change, (4) the demonstration passes without it.
Writes /verif/seeded/<seed>/confirm.json. The worktree (and its build output) is removed afterwards."""
import json, os, re, shutil, subprocess, sys, tempfile

ENV = dict(os.environ, GOFLAGS="-mod=mod", GOPROXY="off", GOSUMDB="off", GOTOOLCHAIN="local")

def sh(cmd, cwd=None, timeout=900):
    return subprocess.run(cmd, shell=True, cwd=cwd, env=ENV, capture_output=True, text=True, errors="replace", timeout=timeout)

def confirm(seed):
    d = "/verif/seeded/" + seed
    meta = json.load(open(d + "/agent_meta.json"))
    wt = tempfile.mkdtemp(prefix="sw-" + seed + "-", dir="/tmp")
    os.rmdir(wt)
    out = {"seed": seed}
    try:
        r = sh("git -C /repo worktree add -q --detach %s HEAD" % wt)
        if r.returncode != 0:
            out["error"] = "worktree: " + r.stderr; return out
        demo_dir = meta.get("demo_dir", "").strip("/")
        demos = [f for f in os.listdir(d) if f.startswith("demo") and f.endswith(".txt")]
        demo_run = meta.get("demo_run", "")
        m = re.search(r"-run\s+'?\"?([A-Za-z0-9_|^$]+)", demo_run)
        runpat = m.group(1) if m else "Demo"
        for f in demos:
            dst = os.path.join(wt, demo_dir, "zz_seed_" + f.replace(".txt", "").replace("demo_", "demo").replace(".go", "") + "_test.go")
            shutil.copy(os.path.join(d, f), dst)
        cmd = "go test -vet=off -count=1 -run '%s' ./%s/" % (runpat, demo_dir)
        r0 = sh(cmd, cwd=wt)
        out["demo_without_change"] = "pass" if r0.returncode == 0 else "FAIL"
        if r0.returncode != 0:
            out["demo_without_change_output"] = (r0.stdout + r0.stderr)[-1500:]
        r = sh("git apply --3way %s/patch.diff" % d, cwd=wt)
        if r.returncode != 0:
            out["error"] = "apply: " + r.stderr; return out
        b = sh("go build ./...", cwd=wt)
        out["builds"] = b.returncode == 0
        r1 = sh(cmd, cwd=wt)
        out["demo_with_change"] = "fail" if r1.returncode != 0 else "PASS"
        out["demo_with_change_tail"] = (r1.stdout + r1.stderr)[-600:]
        # the repository's own suite, unedited (demo files removed)
        for f in os.listdir(os.path.join(wt, demo_dir)):
            if f.startswith("zz_seed_"):
                os.remove(os.path.join(wt, demo_dir, f))
        s = sh("go test -vet=off -count=1 ./...", cwd=wt)
        out["suite_with_change"] = "pass" if s.returncode == 0 else "FAIL"
        if s.returncode != 0:
            out["suite_output"] = (s.stdout + s.stderr)[-1500:]
        out["demo_cmd"] = cmd
        out["confirmed"] = out["builds"] and out["suite_with_change"] == "pass" and out["demo_with_change"] == "fail" and out["demo_without_change"] == "pass"
    finally:
        sh("git -C /repo worktree remove --force %s" % wt)
        shutil.rmtree(wt, ignore_errors=True)
        sh("git -C /repo worktree prune")
    json.dump(out, open(d + "/confirm.json", "w"), indent=1)
    return out

for seed in sys.argv[1:]:
    o = confirm(seed)
    print(seed, "confirmed" if o.get("confirmed") else "NOT CONFIRMED", {k: v for k, v in o.items() if k in ("error", "builds", "suite_with_change", "demo_with_change", "demo_without_change")})
