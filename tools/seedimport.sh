#!/bin/bash
# seedimport.sh <ID> <X>: copy a sub-agent's seeded change from /tmp/wt/<ID>.out into /verif/seeded/<ID>-<X>,
# rebasing the patch onto /repo's current HEAD (3-way, in a scratch worktree, never in /repo itself).
set -e
ID=$1; X=$2; SRC=/tmp/wt/$ID.out; D=/verif/seeded/$ID-$X; WT=/tmp/seedimport.wt
mkdir -p $D
cp $SRC/$X.meta.json $D/agent_meta.json
for f in $SRC/$X.demo*; do cp "$f" "$D/$(basename "$f" | sed "s/^$X\.//").txt"; done
git -C /repo worktree remove --force $WT 2>/dev/null || true
git -C /repo worktree add -q --detach $WT HEAD
if git -C $WT apply --3way $SRC/$X.patch.diff 2>/dev/null && [ -z "$(git -C $WT diff --name-only --diff-filter=U)" ]; then
  git -C $WT diff HEAD > $D/patch.diff
  echo "imported $ID-$X"
else
  cp $SRC/$X.patch.diff $D/patch.orig.diff
  echo "WARNING: $ID-$X does not apply to current HEAD (kept as patch.orig.diff)"
fi
git -C /repo worktree remove --force $WT
