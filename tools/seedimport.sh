#!/bin/bash
# seedimport.sh <ID> <A|B>: copy a sub-agent's seeded change from /tmp/wt/<ID>.out into /verif/seeded/<ID>-<X>,
# rebasing the patch onto /repo's current HEAD (3-way) so that it applies there.
set -e
ID=$1; X=$2; SRC=/tmp/wt/$ID.out; D=/verif/seeded/$ID-$X
mkdir -p $D
cp $SRC/$X.meta.json $D/agent_meta.json
for f in $SRC/$X.demo*; do cp "$f" "$D/$(basename "$f" | sed "s/^$X\.//").txt"; done
[ -z "$(git -C /repo status --porcelain)" ] || { echo "/repo dirty"; exit 2; }
if git -C /repo apply --3way $SRC/$X.patch.diff 2>/dev/null; then
  git -C /repo diff HEAD > $D/patch.diff
  git -C /repo reset -q --hard HEAD
  echo "imported $ID-$X"
else
  git -C /repo reset -q --hard HEAD
  cp $SRC/$X.patch.diff $D/patch.orig.diff
  echo "WARNING: $ID-$X does not apply to current HEAD (kept as patch.orig.diff)"
fi
