#!/usr/bin/env python3
"""Builds /verif/seeded/<seed>/meta.json from the agent's description, the confirmation run and the
check results, and prints the markdown table for DESIGN.md §9."""
import json, os, sys
rows = []
for seed in sorted(os.listdir("/verif/seeded")):
    d = "/verif/seeded/" + seed
    if not os.path.isdir(d) or seed.startswith("_"):
        continue
    am = json.load(open(d + "/agent_meta.json"))
    conf = json.load(open(d + "/confirm.json")) if os.path.exists(d + "/confirm.json") else {}
    res = json.load(open(d + "/result.json")) if os.path.exists(d + "/result.json") else {}
    detected = sorted(p for p, r in res.items() if isinstance(r, dict) and r.get("exit") == 1)
    missed = sorted(p for p, r in res.items() if isinstance(r, dict) and r.get("exit") == 0)
    first = ""
    for p in detected:
        f = res[p].get("first", [])
        cl = [x.strip() for x in f if x.strip().startswith("clause") or x.strip().startswith("class")]
        if cl:
            first = "; ".join(cl[:2])
            break
    meta = {
        "seed": seed,
        "property": am.get("property", seed.split("-")[0]),
        "summary": am.get("summary"),
        "needs_to_manifest": am.get("needs"),
        "files": am.get("files"),
        "origin": "written by an independent sub-agent that saw only the property text and a scratch worktree of /repo",
        "confirmed_in_scratch_worktree": {
            "tool": "tools/seedconfirm.py " + seed,
            "builds": conf.get("builds"),
            "repository_suite_with_change": conf.get("suite_with_change"),
            "demo_with_change": conf.get("demo_with_change"),
            "demo_without_change": conf.get("demo_without_change"),
            "demo_cmd": conf.get("demo_cmd"),
            "confirmed": conf.get("confirmed"),
        },
        "checks_run": {p: {"exit": r.get("exit"), "wall_s": r.get("wall_s")} for p, r in res.items() if isinstance(r, dict)},
        "detected_by": detected,
        "not_detected_by": missed,
        "first_violation": first,
        "how_to_rerun": "tools/seedrun.py %s %s" % (seed, " ".join(sorted(res.keys()))),
    }
    json.dump(meta, open(d + "/meta.json", "w"), indent=1)
    summ = (am.get("summary") or "").replace("|", "/").replace("\n", " ")
    if len(summ) > 110:
        summ = summ[:107] + "..."
    rows.append("| %s | %s | %s | %s |" % (seed, summ, ", ".join(detected) or "-", ", ".join(missed) or "-"))
print("| seed | change | detected by (quick tier) | run but not detected by |")
print("|---|---|---|---|")
print("\n".join(rows))
