#!/usr/bin/env python3
"""seedrun.py <seed-name> [<property> ...]: apply /verif/seeded/<seed>/patch.diff to /repo (3-way),
run ./check for the given properties (default: the seed's own property), revert /repo, and record the
outcome in /verif/seeded/<seed>/result.json. Never leaves /repo modified."""
import json, os, subprocess, sys, time

def sh(cmd, **kw):
    return subprocess.run(cmd, shell=True, capture_output=True, text=True, **kw)

REPO = os.environ.get("SEED_REPO", "/repo")  # a second lane of the regression works on a clone of /repo

def main():
    seed = sys.argv[1]
    d = "/verif/seeded/" + seed
    props = sys.argv[2:] or [seed.split("-")[0]]
    st = sh("git -C %s status --porcelain" % REPO).stdout.strip()
    if st:
        print("refusing: repo is not clean:\n" + st); sys.exit(2)
    r = sh("git -C %s apply --3way %s/patch.diff" % (REPO, d))
    if r.returncode != 0:
        print("patch does not apply:", r.stderr); sh("git -C %s reset -q --hard HEAD" % REPO); sys.exit(2)
    out = {}
    try:
        b = sh("cd " + REPO + " && GOFLAGS=-mod=mod GOPROXY=off GOSUMDB=off GOTOOLCHAIN=local go build ./...")
        if b.returncode != 0:
            print("mutant does not build:", b.stderr[-2000:]); out["build"] = "failed"
        for p in props:
            t = time.time()
            c = sh("cd /verif && VERIF_REPO=%s ./check %s --tier %s" % (REPO, p, os.environ.get("SEED_TIER", "quick")))
            lines = [l for l in c.stdout.splitlines() if l.startswith("VIOLATION") or l.startswith("  clause") or l.startswith("  class") or l.startswith("  detail")]
            out[p] = {"exit": c.returncode, "wall_s": round(time.time() - t, 1), "first": lines[:8]}
            print("%s on %s: exit=%d (%.0fs)" % (p, seed, c.returncode, time.time() - t))
            for l in lines[:8]:
                print("   " + l[:300])
            if c.returncode not in (0, 1):
                print(c.stderr[-1500:])
    finally:
        sh("git -C %s reset -q --hard HEAD" % REPO)
    res_path = d + "/result.json"
    prev = {}
    if os.path.exists(res_path):
        prev = json.load(open(res_path))
    prev.update(out)
    json.dump(prev, open(res_path, "w"), indent=1)

main()
