#!/bin/bash
# withseed.sh <seed> <command...>: apply a seeded change to /repo, build the checker into .cache/m, run the
# command (with $BIN = that checker), and revert /repo. For developing checks against a seeded change.
seed=$1; shift
[ -z "$(git -C /repo status --porcelain)" ] || { echo "/repo dirty"; exit 2; }
git -C /repo apply --3way /verif/seeded/$seed/patch.diff || { git -C /repo reset -q --hard HEAD; exit 2; }
rm -f /verif/.cache/m/check.bin
/verif/build.sh /verif/.cache/m 2>&1 | grep -v conda | tail -5
git -C /repo reset -q --hard HEAD
[ -x /verif/.cache/m/check.bin ] || { echo "BUILD FAILED for $seed"; exit 2; }
export BIN=/verif/.cache/m/check.bin
"$@"
