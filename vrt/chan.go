//go:build verif

package vrt

import (
	"fmt"
	"reflect"
	"sort"
)

// Chan is the managed replacement of a Go channel. Unbuffered channels (capacity 0) are
// approximated by a one-slot buffer (the repository only uses buffered channels).
type Chan[T any] struct {
	buf    []T
	cap    int
	closed bool
}

func MakeChan[T any](n int) *Chan[T] {
	if n <= 0 {
		n = 1
	}
	return &Chan[T]{cap: n}
}

func never() bool { return false }

func (c *Chan[T]) canSend() bool { return c.closed || len(c.buf) < c.cap }
func (c *Chan[T]) canRecv() bool { return c.closed || len(c.buf) > 0 }

func (c *Chan[T]) doSend(v T) {
	if c.closed {
		panic("send on closed channel")
	}
	c.buf = append(c.buf, v)
}

func (c *Chan[T]) doRecv() (T, bool) {
	var zero T
	if len(c.buf) > 0 {
		v := c.buf[0]
		c.buf[0] = zero
		c.buf = c.buf[1:]
		return v, true
	}
	return zero, false
}

func (c *Chan[T]) Send(v T) {
	if c == nil {
		Point(&Op{Kind: "send-nil", Enabled: never})
		return
	}
	Point(&Op{Kind: "send", Enabled: c.canSend})
	c.doSend(v)
}

func (c *Chan[T]) Recv() T {
	v, _ := c.Recv2()
	return v
}

func (c *Chan[T]) Recv2() (T, bool) {
	if c == nil {
		Point(&Op{Kind: "recv-nil", Enabled: never})
		var zero T
		return zero, false
	}
	Point(&Op{Kind: "recv", Enabled: c.canRecv})
	return c.doRecv()
}

func (c *Chan[T]) Close() {
	if c == nil {
		panic("close of nil channel")
	}
	if c.closed {
		panic("close of closed channel")
	}
	c.closed = true
}

func (c *Chan[T]) Len() int {
	if c == nil {
		return 0
	}
	return len(c.buf)
}

func (c *Chan[T]) Cap() int {
	if c == nil {
		return 0
	}
	return c.cap
}

// Snapshot returns the buffered values (for state dumps).
func (c *Chan[T]) Snapshot() (vals []interface{}, closed bool) {
	if c == nil {
		return nil, false
	}
	for _, v := range c.buf {
		vals = append(vals, v)
	}
	return vals, c.closed
}

// TrySend / TryRecv are for harness code (never block).
func (c *Chan[T]) TrySend(v T) bool {
	if !c.canSend() || c.closed {
		return false
	}
	c.doSend(v)
	return true
}

type selCase struct {
	ready func() bool
	fire  func()
}

type Select struct {
	site       string
	cases      []selCase
	hasDefault bool
}

func NewSelect(site string) *Select { return &Select{site: site} }

func (s *Select) SetDefault() { s.hasDefault = true }

type RecvCase[T any] struct {
	v  T
	ok bool
}

func (r *RecvCase[T]) Val() T          { return r.v }
func (r *RecvCase[T]) Val2() (T, bool) { return r.v, r.ok }

func (c *Chan[T]) SelSend(s *Select, v T) {
	if c == nil {
		s.cases = append(s.cases, selCase{ready: never})
		return
	}
	s.cases = append(s.cases, selCase{ready: c.canSend, fire: func() { c.doSend(v) }})
}

func (c *Chan[T]) SelRecv(s *Select) *RecvCase[T] {
	rc := &RecvCase[T]{}
	if c == nil {
		s.cases = append(s.cases, selCase{ready: never})
		return rc
	}
	s.cases = append(s.cases, selCase{ready: c.canRecv, fire: func() { rc.v, rc.ok = c.doRecv() }})
	return rc
}

func (s *Select) anyReady() bool {
	for _, c := range s.cases {
		if c.ready() {
			return true
		}
	}
	return false
}

// Do blocks until a case is ready (or returns -1 for default) and performs it.
func (s *Select) Do() int {
	if s.hasDefault {
		Point(&Op{Kind: "select", Site: s.site, Enabled: always})
	} else {
		Point(&Op{Kind: "select", Site: s.site, Enabled: s.anyReady})
	}
	var ready []int
	for i, c := range s.cases {
		if c.ready() {
			ready = append(ready, i)
		}
	}
	if len(ready) == 0 {
		if s.hasDefault {
			return -1
		}
		panic("vrt: select resumed with no ready case")
	}
	pick := 0
	if len(ready) > 1 && S != nil && S.cur != nil {
		pick = S.Policy.ChooseSelect(S.cur, s.site, len(ready))
		if pick < 0 || pick >= len(ready) {
			panic(fmt.Sprintf("vrt: select choice %d out of range %d", pick, len(ready)))
		}
	}
	i := ready[pick]
	s.cases[i].fire()
	return i
}

// SortedKeys returns the keys of m in a deterministic order (one of the orders Go's map
// iteration may produce).
func SortedKeys[K comparable, V any](m map[K]V) []K {
	keys := make([]K, 0, len(m))
	for k := range m {
		keys = append(keys, k)
	}
	if len(keys) < 2 {
		return keys
	}
	sort.Slice(keys, func(i, j int) bool { return lessAny(keys[i], keys[j]) })
	return keys
}

func lessAny(a, b interface{}) bool {
	switch x := a.(type) {
	case string:
		return x < b.(string)
	case int:
		return x < b.(int)
	case int32:
		return x < b.(int32)
	case int64:
		return x < b.(int64)
	case uint32:
		return x < b.(uint32)
	case uint64:
		return x < b.(uint64)
	case [32]byte:
		y := b.([32]byte)
		for i := range x {
			if x[i] != y[i] {
				return x[i] < y[i]
			}
		}
		return false
	case [20]byte:
		y := b.([20]byte)
		for i := range x {
			if x[i] != y[i] {
				return x[i] < y[i]
			}
		}
		return false
	}
	va, vb := reflect.ValueOf(a), reflect.ValueOf(b)
	switch va.Kind() {
	case reflect.Array:
		for i := 0; i < va.Len(); i++ {
			x, y := va.Index(i), vb.Index(i)
			if x.Kind() == reflect.Uint8 {
				if x.Uint() != y.Uint() {
					return x.Uint() < y.Uint()
				}
				continue
			}
			sx, sy := fmt.Sprint(x.Interface()), fmt.Sprint(y.Interface())
			if sx != sy {
				return sx < sy
			}
		}
		return false
	case reflect.Int, reflect.Int8, reflect.Int16, reflect.Int32, reflect.Int64:
		return va.Int() < vb.Int()
	case reflect.Uint, reflect.Uint8, reflect.Uint16, reflect.Uint32, reflect.Uint64:
		return va.Uint() < vb.Uint()
	case reflect.String:
		return va.String() < vb.String()
	}
	return fmt.Sprintf("%v", a) < fmt.Sprintf("%v", b)
}
