//go:build verif

// Package vrt is the virtual runtime the rewritten spynode sources run on when they are model
// checked: a cooperative ("baton") scheduler that owns every thread, the clock, channels, mutexes
// and network connections. With no scheduler installed (S == nil) the shims degrade to plain
// sequential semantics with a settable clock, which the component-level (enum) checks use.
package vrt

import (
	"fmt"
	"runtime"
	"runtime/debug"
	"sort"
	"strings"
)

// Op describes the operation a thread is about to perform at a scheduling point.
type Op struct {
	Kind    string
	Site    string
	Enabled func() bool
	WakeAt  int64 // >0: becomes enabled when the clock reaches this instant
}

type Thread struct {
	ID       int
	Label    string
	wake     chan struct{}
	Pending  *Op
	Done     bool
	killed   bool
	started  bool
	PanicVal interface{}
	PanicStk string
	Env      bool // environment actor thread (harness side), not part of the system under test
	StallUntil int64 // the thread is not scheduled before this instant (models slow execution)
}

// Policy decides scheduling choices that are not forced.
type Policy interface {
	// Preempt is asked at every point where the running thread could continue.
	Preempt(t *Thread, op *Op) bool
	// ChooseSelect picks among n ready select cases (n >= 2).
	ChooseSelect(t *Thread, site string, n int) int
}

type defaultPolicy struct{}

func (defaultPolicy) Preempt(*Thread, *Op) bool             { return false }
func (defaultPolicy) ChooseSelect(*Thread, string, int) int { return 0 }

type timer struct {
	at    int64
	seq   uint64
	fire  func()
	alive bool
}

type Sched struct {
	Threads []*Thread
	cur     *Thread
	yield   chan struct{}
	Now     int64 // virtual nanoseconds since Base
	timers  []*timer
	seq     uint64
	Policy  Policy
	Points  int64
	Trace   func(t *Thread, op *Op) // optional hook: called when a thread parks
	Failure string                  // first harness-level failure (divergence etc.)
}

// S is the installed scheduler; nil means passthrough mode.
var S *Sched

// Base is the wall-clock instant virtual time 0 corresponds to (2021-01-01T00:00:00Z).
const BaseUnix = 1609459200

// PassNow is the clock used in passthrough mode (ns since Base).
var PassNow int64

type killT struct{}

var killSentinel = killT{}

func NewSched() *Sched {
	return &Sched{yield: make(chan struct{}), Policy: defaultPolicy{}}
}

func Install(s *Sched) { S = s }

// Cur returns the running managed thread (nil from harness context).
func Cur() *Thread {
	if S == nil {
		return nil
	}
	return S.cur
}

func NowNS() int64 {
	if S != nil {
		return S.Now
	}
	return PassNow
}

func always() bool { return true }

// Go starts f as a managed thread (or a plain goroutine in passthrough mode).
func Go(label string, f func()) {
	s := S
	if s == nil {
		go f()
		return
	}
	s.spawn(label, f, Cur() != nil && Cur().Env)
}

// GoEnv starts an environment-side managed thread.
func GoEnv(label string, f func()) *Thread {
	return S.spawn(label, f, true)
}

func (s *Sched) spawn(label string, f func(), env bool) *Thread {
	t := &Thread{ID: len(s.Threads), Label: label, wake: make(chan struct{}), Env: env}
	t.Pending = &Op{Kind: "start", Site: label, Enabled: always}
	s.Threads = append(s.Threads, t)
	go func() {
		<-t.wake
		defer func() {
			if r := recover(); r != nil {
				if _, ok := r.(killT); !ok {
					t.PanicVal = r
					t.PanicStk = string(debug.Stack())
				}
			}
			t.Done = true
			t.Pending = nil
			s.cur = nil
			s.yield <- struct{}{}
		}()
		if t.killed {
			return
		}
		t.started = true
		t.Pending = nil
		f()
	}()
	return t
}

// Point is called by the shims before every potentially blocking / visible operation.
func Point(op *Op) {
	s := S
	if s == nil {
		if !op.Enabled() {
			panic(fmt.Sprintf("vrt: operation %s would block in passthrough mode", op.Kind))
		}
		return
	}
	t := s.cur
	if t == nil {
		if !op.Enabled() {
			panic(fmt.Sprintf("vrt: harness-context operation %s (%s) would block", op.Kind, op.Site))
		}
		return
	}
	if t.killed {
		panic(killSentinel)
	}
	s.Points++
	if op.Enabled() && !s.Policy.Preempt(t, op) {
		return
	}
	if op.Site == "" {
		// where in the code under test the thread parks (only computed on the slow path)
		for skip := 2; skip < 6; skip++ {
			_, file, line, ok := runtime.Caller(skip)
			if !ok {
				break
			}
			if !strings.Contains(file, "/vrt/") {
				if i := strings.LastIndex(file, "/"); i >= 0 {
					file = file[i+1:]
				}
				op.Site = fmt.Sprintf("%s:%d", file, line)
				break
			}
		}
	}
	t.Pending = op
	if s.Trace != nil {
		s.Trace(t, op)
	}
	s.cur = nil
	s.yield <- struct{}{}
	<-t.wake
	if t.killed {
		panic(killSentinel)
	}
	t.Pending = nil
}

// Killed reports whether the calling managed thread is being unwound.
func Killed() bool {
	if S == nil || S.cur == nil {
		return false
	}
	return S.cur.killed
}

// Enabled returns the live threads whose pending operation can proceed, in ascending id order.
func (s *Sched) Enabled() []*Thread {
	var out []*Thread
	for _, t := range s.Threads {
		if !t.Done && t.Pending != nil && t.StallUntil <= s.Now && t.Pending.Enabled() {
			out = append(out, t)
		}
	}
	return out
}

// Resume runs t until its next parking point (or its end).
func (s *Sched) Resume(t *Thread) {
	if s.cur != nil {
		panic("vrt: Resume while a thread is running")
	}
	if t.Done {
		panic("vrt: Resume of finished thread")
	}
	s.cur = t
	t.wake <- struct{}{}
	<-s.yield
}

// NextWake returns the earliest future instant at which something can become enabled.
func (s *Sched) NextWake() (int64, bool) {
	best := int64(0)
	ok := false
	for _, t := range s.Threads {
		if !t.Done && t.Pending != nil && t.Pending.WakeAt > s.Now {
			if !ok || t.Pending.WakeAt < best {
				best, ok = t.Pending.WakeAt, true
			}
		}
	}
	for _, tm := range s.timers {
		if tm.alive && tm.at > s.Now {
			if !ok || tm.at < best {
				best, ok = tm.at, true
			}
		}
	}
	for _, t := range s.Threads {
		if !t.Done && t.StallUntil > s.Now {
			if !ok || t.StallUntil < best {
				best, ok = t.StallUntil, true
			}
		}
	}
	return best, ok
}

// AdvanceTo moves the clock forward and fires the timers that became due, in (time, creation)
// order.
func (s *Sched) AdvanceTo(at int64) {
	if at < s.Now {
		return
	}
	var due []*timer
	rest := s.timers[:0]
	for _, tm := range s.timers {
		if !tm.alive {
			continue
		}
		if tm.at <= at {
			due = append(due, tm)
		} else {
			rest = append(rest, tm)
		}
	}
	s.timers = rest
	sort.SliceStable(due, func(i, j int) bool {
		if due[i].at != due[j].at {
			return due[i].at < due[j].at
		}
		return due[i].seq < due[j].seq
	})
	for _, tm := range due {
		s.Now = tm.at
		tm.alive = false
		tm.fire()
	}
	s.Now = at
}

// AddTimer registers fire to run (in harness context) when the clock reaches now+d.
func AddTimer(d int64, fire func()) (cancel func() bool) {
	s := S
	if s == nil {
		// passthrough: timers never fire by themselves
		return func() bool { return true }
	}
	s.seq++
	tm := &timer{at: s.Now + d, seq: s.seq, fire: fire, alive: true}
	s.timers = append(s.timers, tm)
	return func() bool {
		was := tm.alive
		tm.alive = false
		return was
	}
}

// PendingTimers returns the due times (relative to now) of live timers, sorted.
func (s *Sched) PendingTimers() []int64 {
	var out []int64
	for _, tm := range s.timers {
		if tm.alive {
			out = append(out, tm.at-s.Now)
		}
	}
	sort.Slice(out, func(i, j int) bool { return out[i] < out[j] })
	return out
}

// Live returns the threads that have not finished.
func (s *Sched) Live() []*Thread {
	var out []*Thread
	for _, t := range s.Threads {
		if !t.Done {
			out = append(out, t)
		}
	}
	return out
}

// Panics returns the threads that ended with a panic raised by the code under test.
func (s *Sched) Panics() []*Thread {
	var out []*Thread
	for _, t := range s.Threads {
		if t.PanicVal != nil {
			out = append(out, t)
		}
	}
	return out
}

// KillAll unwinds every live thread (all of them, or only non-environment threads).
func (s *Sched) KillAll(onlySystem bool) {
	for round := 0; round < 1000; round++ {
		progress := false
		for _, t := range s.Threads {
			if t.Done || (onlySystem && t.Env) {
				continue
			}
			t.killed = true
			progress = true
			// A killed thread may hit further points in deferred calls; each one panics again
			// and control comes back here when the goroutine finally exits.
			s.cur = t
			t.wake <- struct{}{}
			<-s.yield
		}
		if !progress {
			return
		}
	}
	panic("vrt: KillAll did not converge")
}
