//go:build verif

// Package vatomic replaces "sync/atomic" in the rewritten sources: same operations, but each one
// is a scheduling point, so that interleavings between an atomic publication and the operations
// around it are explored.
package vatomic

import (
	"sync/atomic"

	"github.com/tokenized/spynode/pkg/vrt"
)

func yes() bool { return true }

func pt(kind string) {
	if vrt.S != nil && vrt.Cur() != nil {
		vrt.Point(&vrt.Op{Kind: kind, Enabled: yes})
	}
}

type Value struct {
	v atomic.Value
}

func (v *Value) Load() interface{} {
	pt("atomic-load")
	return v.v.Load()
}

func (v *Value) Store(x interface{}) {
	pt("atomic-store")
	v.v.Store(x)
}

func (v *Value) Swap(x interface{}) interface{} {
	pt("atomic-swap")
	return v.v.Swap(x)
}

func (v *Value) CompareAndSwap(o, n interface{}) bool {
	pt("atomic-cas")
	return v.v.CompareAndSwap(o, n)
}

func AddUint32(p *uint32, d uint32) uint32   { pt("atomic-add"); return atomic.AddUint32(p, d) }
func LoadUint32(p *uint32) uint32            { pt("atomic-load"); return atomic.LoadUint32(p) }
func StoreUint32(p *uint32, v uint32)        { pt("atomic-store"); atomic.StoreUint32(p, v) }
func AddInt32(p *int32, d int32) int32       { pt("atomic-add"); return atomic.AddInt32(p, d) }
func LoadInt32(p *int32) int32               { pt("atomic-load"); return atomic.LoadInt32(p) }
func StoreInt32(p *int32, v int32)           { pt("atomic-store"); atomic.StoreInt32(p, v) }
func AddUint64(p *uint64, d uint64) uint64   { pt("atomic-add"); return atomic.AddUint64(p, d) }
func LoadUint64(p *uint64) uint64            { pt("atomic-load"); return atomic.LoadUint64(p) }
func StoreUint64(p *uint64, v uint64)        { pt("atomic-store"); atomic.StoreUint64(p, v) }
func AddInt64(p *int64, d int64) int64       { pt("atomic-add"); return atomic.AddInt64(p, d) }
func LoadInt64(p *int64) int64               { pt("atomic-load"); return atomic.LoadInt64(p) }
func StoreInt64(p *int64, v int64)           { pt("atomic-store"); atomic.StoreInt64(p, v) }
func CompareAndSwapUint32(p *uint32, o, n uint32) bool {
	pt("atomic-cas")
	return atomic.CompareAndSwapUint32(p, o, n)
}
func CompareAndSwapInt32(p *int32, o, n int32) bool {
	pt("atomic-cas")
	return atomic.CompareAndSwapInt32(p, o, n)
}
