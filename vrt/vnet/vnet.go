//go:build verif

// Package vnet replaces "net" in the rewritten sources with in-memory connections whose far end
// is owned by the harness.
package vnet

import (
	"context"
	"errors"
	"io"
	"net"
	"time"

	"github.com/tokenized/spynode/pkg/vrt"
)

type (
	Conn  = net.Conn
	Addr  = net.Addr
	IP    = net.IP
	Error = net.Error
)

var IPv4 = net.IPv4

func ParseIP(s string) IP { return net.ParseIP(s) }

var (
	ErrRefused = errors.New("connect: connection refused")
	ErrClosed  = errors.New("use of closed network connection")
	ErrReset   = errors.New("read: connection reset by peer")
	ErrPipe    = errors.New("write: broken pipe")
)

// Network is the registry of listening addresses for one execution.
type Network struct {
	// Accept is consulted on every dial: it returns whether the connection is accepted. It
	// runs in the dialing thread's context. The server end is handed to the harness.
	Accept func(addr string, server *VConn) bool
	Conns  []*VConn // client ends, in dial order
	Dials  []string // every dial attempt (address), in order
}

var Net = &Network{}

func Reset() { Net = &Network{} }

type addr string

func (a addr) Network() string { return "tcp" }
func (a addr) String() string  { return string(a) }

// VConn is one end of an in-memory duplex connection.
type VConn struct {
	ID       int
	Name     string
	rbuf     []byte
	closed   bool
	reset    bool
	WriteFail bool // writes on this end fail (the peer went away) while reads still block: a half-open connection
	Peer     *VConn
	Limit    int // max unread bytes at the peer before Write blocks (0 = unbounded)
	Written  int64
	OnWrite  func() // harness hook, called after bytes were appended to the peer's buffer
	readSite string
}

func (c *VConn) readable() bool {
	return len(c.rbuf) > 0 || c.closed || c.reset || c.Peer.closed
}

func (c *VConn) Read(p []byte) (int, error) {
	if len(p) == 0 {
		return 0, nil
	}
	vrt.Point(&vrt.Op{Kind: "read", Site: c.Name, Enabled: c.readable})
	if c.closed {
		return 0, ErrClosed
	}
	if len(c.rbuf) > 0 {
		n := copy(p, c.rbuf)
		c.rbuf = c.rbuf[n:]
		return n, nil
	}
	if c.reset {
		return 0, ErrReset
	}
	return 0, io.EOF
}

func (c *VConn) writable() bool {
	return c.closed || c.reset || c.WriteFail || c.Peer.closed || c.Limit == 0 || len(c.Peer.rbuf) < c.Limit
}

func (c *VConn) Write(p []byte) (int, error) {
	vrt.Point(&vrt.Op{Kind: "write", Site: c.Name, Enabled: c.writable})
	if c.closed {
		return 0, ErrClosed
	}
	if c.reset || c.WriteFail || c.Peer.closed {
		return 0, ErrPipe
	}
	c.Peer.rbuf = append(c.Peer.rbuf, p...)
	c.Written += int64(len(p))
	if c.OnWrite != nil {
		c.OnWrite()
	}
	return len(p), nil
}

func (c *VConn) Close() error {
	if c.closed {
		return ErrClosed
	}
	c.closed = true
	return nil
}

// ResetByPeer makes both directions fail (harness: abrupt connection loss).
func (c *VConn) ResetByPeer() {
	c.reset = true
	c.Peer.reset = true
}

func (c *VConn) IsClosed() bool { return c.closed }

// Unread returns the bytes waiting to be read at this end without consuming them.
func (c *VConn) Unread() []byte { return c.rbuf }

// Take consumes and returns everything waiting at this end (harness side).
func (c *VConn) Take() []byte {
	b := c.rbuf
	c.rbuf = nil
	return b
}

// Consume drops the first n unread bytes at this end.
func (c *VConn) Consume(n int) { c.rbuf = c.rbuf[n:] }

func (c *VConn) LocalAddr() net.Addr                { return addr("local:" + c.Name) }
func (c *VConn) RemoteAddr() net.Addr               { return addr(c.Name) }
func (c *VConn) SetDeadline(t time.Time) error      { return nil }
func (c *VConn) SetReadDeadline(t time.Time) error  { return nil }
func (c *VConn) SetWriteDeadline(t time.Time) error { return nil }

func dial(address string) (Conn, error) {
	vrt.Point(&vrt.Op{Kind: "dial", Site: address, Enabled: func() bool { return true }})
	n := Net
	n.Dials = append(n.Dials, address)
	client := &VConn{ID: len(n.Conns), Name: address}
	server := &VConn{ID: len(n.Conns), Name: address + "#server"}
	client.Peer, server.Peer = server, client
	if n.Accept == nil || !n.Accept(address, server) {
		return nil, &net.OpError{Op: "dial", Net: "tcp", Err: ErrRefused}
	}
	n.Conns = append(n.Conns, client)
	return client, nil
}

func Dial(network, address string) (Conn, error) { return dial(address) }

func DialTimeout(network, address string, timeout time.Duration) (Conn, error) {
	return dial(address)
}

type Dialer struct {
	Timeout   time.Duration
	KeepAlive time.Duration
}

func (d *Dialer) Dial(network, address string) (Conn, error) { return dial(address) }

func (d *Dialer) DialContext(ctx context.Context, network, address string) (Conn, error) {
	return dial(address)
}
