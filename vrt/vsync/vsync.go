//go:build verif

// Package vsync replaces "sync" in the rewritten sources.
package vsync

import (
	"sync"
	"time"

	"github.com/tokenized/spynode/pkg/vrt"
)

type Locker = sync.Locker
type Once = sync.Once
type Map = sync.Map

// Pool is a deterministic stand-in for sync.Pool: Get returns the most recently Put item (what a
// real pool does on one P, and the most adversarial legal answer for buffer aliasing), New() when
// empty.
type Pool struct {
	New   func() interface{}
	mu    sync.Mutex
	items []interface{}
}

func (p *Pool) Get() interface{} {
	p.mu.Lock()
	defer p.mu.Unlock()
	if n := len(p.items); n > 0 {
		x := p.items[n-1]
		p.items = p.items[:n-1]
		return x
	}
	if p.New != nil {
		return p.New()
	}
	return nil
}

func (p *Pool) Put(x interface{}) {
	p.mu.Lock()
	p.items = append(p.items, x)
	p.mu.Unlock()
}

type Mutex struct {
	held bool
	real sync.Mutex
}

func (m *Mutex) free() bool { return !m.held }

// passLock acquires a real lock in pass-through mode (no scheduler; the sequential component
// checks). Nothing legitimately holds a lock for seconds there, so a lock that stays taken is a
// leaked lock: fail loudly instead of hanging until the worker's time-out.
var leakSeen bool

func passLock(try func() bool) {
	if try() {
		return
	}
	if leakSeen {
		panic("vsync: lock still not released (leaked lock reported before)")
	}
	deadline := time.Now().Add(5 * time.Second)
	for !try() {
		if time.Now().After(deadline) {
			leakSeen = true // later attempts fail at once instead of waiting 5 s each
			panic("vsync: lock not released within 5 s without a scheduler (leaked lock?)")
		}
		time.Sleep(time.Millisecond)
	}
}

func (m *Mutex) Lock() {
	if vrt.S == nil {
		passLock(m.real.TryLock)
		return
	}
	if vrt.Killed() && m.held {
		// being unwound: never wait; Point panics with the kill sentinel
	}
	vrt.Point(&vrt.Op{Kind: "lock", Enabled: m.free})
	m.held = true
}

func (m *Mutex) TryLock() bool {
	if vrt.S == nil {
		return m.real.TryLock()
	}
	if m.held {
		return false
	}
	m.held = true
	return true
}

func (m *Mutex) Unlock() {
	if vrt.S == nil {
		m.real.Unlock()
		return
	}
	if !m.held {
		if vrt.Killed() {
			return
		}
		panic("sync: unlock of unlocked mutex")
	}
	m.held = false
}

// Held is for state dumps.
func (m *Mutex) Held() bool { return m.held }

type RWMutex struct {
	w       bool
	readers int
	real    sync.RWMutex
}

func (m *RWMutex) Lock() {
	if vrt.S == nil {
		passLock(m.real.TryLock)
		return
	}
	vrt.Point(&vrt.Op{Kind: "wlock", Enabled: func() bool { return !m.w && m.readers == 0 }})
	m.w = true
}

func (m *RWMutex) Unlock() {
	if vrt.S == nil {
		m.real.Unlock()
		return
	}
	m.w = false
}

func (m *RWMutex) RLock() {
	if vrt.S == nil {
		passLock(m.real.TryRLock)
		return
	}
	vrt.Point(&vrt.Op{Kind: "rlock", Enabled: func() bool { return !m.w }})
	m.readers++
}

func (m *RWMutex) RUnlock() {
	if vrt.S == nil {
		m.real.RUnlock()
		return
	}
	if m.readers > 0 {
		m.readers--
	}
}

type WaitGroup struct {
	n    int
	real sync.WaitGroup
}

func (w *WaitGroup) Add(d int) {
	if vrt.S == nil {
		w.real.Add(d)
		return
	}
	w.n += d
	if w.n < 0 {
		if vrt.Killed() {
			w.n = 0
			return
		}
		panic("sync: negative WaitGroup counter")
	}
}

func (w *WaitGroup) Done() { w.Add(-1) }

func (w *WaitGroup) Wait() {
	if vrt.S == nil {
		w.real.Wait()
		return
	}
	vrt.Point(&vrt.Op{Kind: "wg-wait", Enabled: func() bool { return w.n == 0 }})
}
