//go:build verif

// Package vtime replaces "time" in the rewritten sources: same types, virtual clock.
package vtime

import (
	"time"

	"github.com/tokenized/spynode/pkg/vrt"
)

type (
	Time     = time.Time
	Duration = time.Duration
	Month    = time.Month
	Location = time.Location
)

const (
	Nanosecond  = time.Nanosecond
	Microsecond = time.Microsecond
	Millisecond = time.Millisecond
	Second      = time.Second
	Minute      = time.Minute
	Hour        = time.Hour

	RFC3339     = time.RFC3339
	RFC3339Nano = time.RFC3339Nano
)

var UTC = time.UTC

func Unix(sec, nsec int64) Time                { return time.Unix(sec, nsec) }
func UnixMilli(ms int64) Time                  { return time.UnixMilli(ms) }
func Date(y int, m Month, d, h, mi, s, ns int, l *Location) Time {
	return time.Date(y, m, d, h, mi, s, ns, l)
}
func ParseDuration(s string) (Duration, error) { return time.ParseDuration(s) }

func Now() Time {
	return time.Unix(vrt.BaseUnix, 0).Add(time.Duration(vrt.NowNS()))
}

func Since(t Time) Duration { return Now().Sub(t) }
func Until(t Time) Duration { return t.Sub(Now()) }

func Sleep(d Duration) {
	if vrt.S == nil || vrt.Cur() == nil {
		// passthrough: sleeping just moves the clock
		if vrt.S == nil && d > 0 {
			vrt.PassNow += int64(d)
		}
		return
	}
	if d < 0 {
		d = 0
	}
	s := vrt.S
	wake := s.Now + int64(d)
	vrt.Point(&vrt.Op{Kind: "sleep", WakeAt: wake, Enabled: func() bool { return s.Now >= wake }})
}

func After(d Duration) *vrt.Chan[Time] {
	c := vrt.MakeChan[Time](1)
	vrt.AddTimer(int64(d), func() { c.TrySend(Now()) })
	return c
}

type Timer struct {
	C      *vrt.Chan[Time]
	cancel func() bool
}

func NewTimer(d Duration) *Timer {
	c := vrt.MakeChan[Time](1)
	t := &Timer{C: c}
	t.cancel = vrt.AddTimer(int64(d), func() { c.TrySend(Now()) })
	return t
}

func (t *Timer) Stop() bool { return t.cancel() }

func (t *Timer) Reset(d Duration) bool {
	was := t.cancel()
	c := t.C
	t.cancel = vrt.AddTimer(int64(d), func() { c.TrySend(Now()) })
	return was
}

func AfterFunc(d Duration, f func()) *Timer {
	t := &Timer{}
	t.cancel = vrt.AddTimer(int64(d), func() { vrt.Go("AfterFunc", f) })
	return t
}
